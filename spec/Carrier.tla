------------------------------- MODULE Carrier -------------------------------
(***************************************************************************)
(* handler.go head handler (carrier type -> channel entry points),          *)
(* Channel.ReadFrom's chunk loop over a reader that delivers its data in    *)
(* arbitrary fragments, and utils.ByteReader over such a reader.            *)
(* A scripted reader is a sequence of Read results [n, err]; after the      *)
(* script it reports (0, EOF).                                              *)
(***************************************************************************)
EXTENDS Integers, Sequences, FiniteSets, TLC

CONSTANTS
    Ns,        \* byte counts a single Read may return (0 = nothing)
    MaxItems,  \* script length bound
    FixByteReader, \* TRUE: ReadByte skips (0, nil) results and delivers a byte returned together with EOF
    FixSteal       \* TRUE: StealBytes / ToBytes copy what an arbitrary io.WriterTo writes (it may write from one reused buffer)

Errs == {"nil", "eof", "other"}
Items == [n : Ns, err : Errs]

VARIABLES script, phase, last

vars == <<script, phase, last>>

RECURSIVE Sum(_)
Sum(s) == IF s = <<>> THEN 0 ELSE Head(s) + Sum(Tail(s))

\* Channel.ReadFrom over the script: the chunks written (one low-level write per non-empty Read
\* result) and the returned (n, err)
RECURSIVE RF(_, _)
RF(s, writes) ==
    IF s = <<>> THEN [writes |-> writes, n |-> Sum(writes), err |-> "nil"]
    ELSE LET it == Head(s)
             w2 == IF it.n > 0 THEN Append(writes, it.n) ELSE writes
         IN IF it.err = "nil" THEN RF(Tail(s), w2)
            ELSE [writes |-> w2, n |-> Sum(w2), err |-> IF it.err = "eof" THEN "nil" ELSE "other"]

\* utils.ByteReader.ReadByte called until it fails: the bytes delivered (as counts per call: 1 = a
\* real byte, 0 = a byte that was never read) and the final error
RECURSIVE BR(_, _)
BR(s, out) ==
    IF s = <<>> THEN [bytes |-> out, err |-> "eof"]
    ELSE LET it == Head(s) IN
         IF FixByteReader
         THEN IF it.n > 0 THEN BR(IF it.n > 1 THEN <<[n |-> it.n - 1, err |-> it.err]>> \o Tail(s) ELSE (IF it.err = "nil" THEN Tail(s) ELSE <<[n |-> 0, err |-> it.err]>> \o Tail(s)), Append(out, 1))
              ELSE IF it.err = "nil" THEN BR(Tail(s), out)
              ELSE [bytes |-> out, err |-> it.err]
         ELSE \* the code as it was: one Read per call; with a nil error the byte is returned whatever n
              \* is, with an error the caller has to ignore the byte
              IF it.err # "nil" THEN [bytes |-> out, err |-> it.err]
              ELSE BR(IF it.n > 1 THEN <<[n |-> it.n - 1, err |-> it.err]>> \o Tail(s) ELSE Tail(s), Append(out, IF it.n > 0 THEN 1 ELSE 0))

Init == script = <<>> /\ phase = "idle" /\ last = [op |-> "none"]

Scripts == UNION {[1..k -> Items] : k \in 0..MaxItems}

ReadFrom(s) ==
    /\ phase = "idle" /\ script' = s /\ phase' = "done"
    /\ last' = [op |-> "readfrom", res |-> RF(s, <<>>)]

ByteReads(s) ==
    /\ phase = "idle" /\ script' = s /\ phase' = "done"
    /\ \A i \in 1..Len(s) : s[i].n <= 1          \* ReadByte asks for one byte at a time
    /\ last' = [op |-> "bytereader", res |-> BR(s, <<>>)]

\* utils.StealBytes / utils.ToBytes over an io.WriterTo that writes the script's chunks. Bytes are positions 1..n of
\* the source. "reused": the WriterTo writes every chunk from the front of one buffer it re-fills in between (io.Copy
\* does, so io.MultiReader, bufio.Reader, ... do); otherwise every chunk is a slice of its own.
Seg(a, n) == [i \in 1..n |-> a + i - 1]
RECURSIVE Chunks(_, _)
Chunks(s, at) ==
    IF s = <<>> THEN <<>>
    ELSE LET it == Head(s) IN
         (IF it.n > 0 THEN << Seg(at, it.n) >> ELSE <<>>) \o (IF it.err = "nil" THEN Chunks(Tail(s), at + it.n) ELSE <<>>)
RECURSIVE Flat(_)
Flat(cs) == IF cs = <<>> THEN <<>> ELSE Head(cs) \o Flat(Tail(cs))
MinI(a, b) == IF a < b THEN a ELSE b
\* the stealer keeps the first chunk without copying it; when the second chunk arrives the kept bytes are whatever the
\* WriterTo's buffer holds by then (the second chunk at its front), and only then they are copied
StealRes(cs, reused) ==
    IF Len(cs) <= 1 \/ ~reused \/ FixSteal THEN Flat(cs)
    ELSE LET c1 == cs[1]
             c2 == cs[2]
             m == MinI(Len(c1), Len(c2))
         IN SubSeq(c2, 1, m) \o SubSeq(c1, m + 1, Len(c1)) \o Flat(Tail(cs))

Steal(s, reused) ==
    /\ phase = "idle" /\ script' = s /\ phase' = "done"
    /\ \A i \in 1..Len(s) : s[i].err # "other"
    /\ last' = [op |-> "steal", reused |-> reused, res |-> StealRes(Chunks(s, 1), reused)]

Next == \E s \in Scripts : ReadFrom(s) \/ ByteReads(s) \/ \E b \in BOOLEAN : Steal(s, b)
Spec == Init /\ [][Next]_vars

-----------------------------------------------------------------------------
Content(s) == Sum([i \in 1..Len(s) |-> s[i].n])
\* prefix of the script up to and including the first item with an error
RECURSIVE UpToErr(_)
UpToErr(s) == IF s = <<>> THEN <<>> ELSE IF Head(s).err # "nil" THEN <<Head(s)>> ELSE <<Head(s)>> \o UpToErr(Tail(s))

\* C14: exactly the reader's bytes are transmitted, in order; end of stream is success
C14_ReadFromExact ==
    (phase = "done" /\ last.op = "readfrom") =>
        /\ Sum(last.res.writes) = Content(UpToErr(script))
        /\ last.res.n = Content(UpToErr(script))
        /\ \A i \in 1..Len(last.res.writes) : last.res.writes[i] > 0

\* C14: byte-wise reading returns exactly the reader's bytes: no byte that was never read, none dropped
C14_ByteReaderExact ==
    (phase = "done" /\ last.op = "bytereader") =>
        /\ \A i \in 1..Len(last.res.bytes) : last.res.bytes[i] = 1
        /\ Len(last.res.bytes) = Content(UpToErr(script))

\* C14: collecting what a WriterTo writes yields exactly its content, however the WriterTo manages its buffers
C14_StealExact ==
    (phase = "done" /\ last.op = "steal") => last.res = Seg(1, Content(UpToErr(script)))
=============================================================================
