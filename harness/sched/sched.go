// Package sched is the gate scheduler that binds TLA+ actions to real goroutines.
//
// Every logical process of a specification (writer i, closer j, sender
// incarnation k, read loop, ...) is a goroutine registered under a name. A
// registered goroutine that calls Gate(point) announces the point and blocks
// until the scheduler releases it; goroutines that are not registered pass
// through. The scheduler releases exactly one process per step and then waits
// until the system has settled: every live process is at a gate, has finished,
// or is parked (blocked on something that is not a gate) - which is read from the
// goroutine status in a full stack dump, never guessed from a time-out.
package sched

import (
	"bytes"
	"fmt"
	"runtime"
	"sort"
	"strconv"
	"sync"
	"sync/atomic"
	"time"
)

// Proc is one logical process.
type Proc struct {
	Name    string
	gid     uint64
	at      string // gate the process is blocked at ("" = not at a gate)
	obj     interface{}
	done    bool
	release chan struct{}
	parked  string // goroutine status when last seen parked
}

// Sched is a gate scheduler for one "world" (one system under test).
type Sched struct {
	mu     sync.Mutex
	procs  map[string]*Proc
	byGid  map[uint64]*Proc
	names  []string
	epoch  int64
	Free   bool // when true gates do not block (free-running mode)
	Steps  int
	Dumps  int
	failed string
	// Crashed: processes whose goroutine died from a panic that nothing recovered
	Crashed map[string]string
}

// New creates an empty scheduler.
func New() *Sched {
	return &Sched{procs: map[string]*Proc{}, byGid: map[uint64]*Proc{}}
}

// Gid returns the id of the calling goroutine.
func Gid() uint64 {
	var buf [64]byte
	n := runtime.Stack(buf[:], false)
	// "goroutine 123 [running]:"
	b := buf[:n]
	b = b[len("goroutine "):]
	i := bytes.IndexByte(b, ' ')
	id, _ := strconv.ParseUint(string(b[:i]), 10, 64)
	return id
}

// Go starts fn as the process name. fn runs freely until its first gate. The process is registered
// before its goroutine exists, so that the scheduler never takes the spawning goroutine (briefly
// blocked while the new one starts) for a settled system.
func (s *Sched) Go(name string, fn func()) {
	p := &Proc{Name: name, release: make(chan struct{}, 1)}
	s.mu.Lock()
	if _, dup := s.procs[name]; dup {
		s.mu.Unlock()
		panic("sched: duplicate process " + name)
	}
	s.procs[name] = p
	s.names = append(s.names, name)
	s.mu.Unlock()
	atomic.AddInt64(&s.epoch, 1)
	ready := make(chan struct{})
	go func() {
		gid := Gid()
		s.mu.Lock()
		p.gid = gid
		s.byGid[gid] = p
		s.mu.Unlock()
		atomic.AddInt64(&s.epoch, 1)
		close(ready)
		defer func() {
			if r := recover(); r != nil {
				// a panic escaped the process: record it instead of killing the driver
				s.mu.Lock()
				if s.Crashed == nil {
					s.Crashed = map[string]string{}
				}
				s.Crashed[name] = fmt.Sprint(r)
				s.mu.Unlock()
			}
			s.mu.Lock()
			p.done = true
			p.at = ""
			delete(s.byGid, p.gid)
			s.mu.Unlock()
			atomic.AddInt64(&s.epoch, 1)
		}()
		fn()
	}()
	<-ready
}

// Current returns the name of the calling process ("" if not registered).
func (s *Sched) Current() string {
	gid := Gid()
	s.mu.Lock()
	defer s.mu.Unlock()
	if p := s.byGid[gid]; p != nil {
		return p.Name
	}
	return ""
}

// Gate announces point for the calling process and blocks until released.
func (s *Sched) Gate(obj interface{}, point string) {
	gid := Gid()
	s.mu.Lock()
	p := s.byGid[gid]
	if p == nil || s.Free {
		s.mu.Unlock()
		return
	}
	p.at = point
	p.obj = obj
	s.mu.Unlock()
	atomic.AddInt64(&s.epoch, 1)
	<-p.release
}

// SetFree switches to free-running mode and releases everybody at a gate.
func (s *Sched) SetFree() {
	s.mu.Lock()
	s.Free = true
	for _, p := range s.procs {
		if p.at != "" {
			p.at = ""
			p.release <- struct{}{}
		}
	}
	s.mu.Unlock()
}

// Loc is where a process is: a gate name, "done", "parked" or "running".
func (s *Sched) Loc(name string) string {
	s.mu.Lock()
	defer s.mu.Unlock()
	p := s.procs[name]
	switch {
	case p == nil:
		return "none"
	case p.done:
		return "done"
	case p.at != "":
		return p.at
	case p.parked != "":
		return "parked"
	}
	return "running"
}

// ParkedStatus returns the goroutine wait reason of a parked process.
func (s *Sched) ParkedStatus(name string) string {
	s.mu.Lock()
	defer s.mu.Unlock()
	if p := s.procs[name]; p != nil {
		return p.parked
	}
	return ""
}

// Names returns the process names in creation order.
func (s *Sched) Names() []string {
	s.mu.Lock()
	defer s.mu.Unlock()
	return append([]string(nil), s.names...)
}

// Locs returns the location of every known process.
func (s *Sched) Locs() map[string]string {
	out := map[string]string{}
	for _, n := range s.Names() {
		out[n] = s.Loc(n)
	}
	return out
}

// AtGate lists the processes currently blocked at a gate, sorted.
func (s *Sched) AtGate() []string {
	s.mu.Lock()
	defer s.mu.Unlock()
	var out []string
	for n, p := range s.procs {
		if p.at != "" && !p.done {
			out = append(out, n)
		}
	}
	sort.Strings(out)
	return out
}

// Step releases process name from its gate and waits for the system to settle.
// It returns an error if the process is not at a gate.
func (s *Sched) Step(name string) error {
	s.mu.Lock()
	p := s.procs[name]
	if p == nil || p.done || p.at == "" {
		s.mu.Unlock()
		return fmt.Errorf("process %s is not at a gate", name)
	}
	p.at = ""
	p.parked = ""
	s.Steps++
	s.mu.Unlock()
	p.release <- struct{}{}
	return s.Settle()
}

var blockedStatus = map[string]bool{
	"select": true, "chan receive": true, "chan send": true,
	"sync.Mutex.Lock": true, "sync.RWMutex.Lock": true, "sync.RWMutex.RLock": true,
	"semacquire": true, "sync.Cond.Wait": true, "sync.WaitGroup.Wait": true,
	"IO wait": true, "select (no cases)": true, "chan receive (nil chan)": true,
	"chan send (nil chan)": true,
}

// SettleTimeout bounds Settle; exceeding it is a harness failure, not a verdict.
var SettleTimeout = 60 * time.Second

// Settle waits until every live process is at a gate, done, or parked.
func (s *Sched) Settle() error {
	deadline := time.Now().Add(SettleTimeout)
	spins := 0
	for {
		e1 := atomic.LoadInt64(&s.epoch)
		if s.allAtGate() && e1 == atomic.LoadInt64(&s.epoch) {
			return nil
		}
		spins++
		if spins < 50 {
			runtime.Gosched()
			continue
		}
		if spins < 60 {
			time.Sleep(20 * time.Microsecond)
			continue
		}
		// slow path: look at goroutine statuses
		status := s.dumpStatus()
		s.mu.Lock()
		settled := true
		for _, p := range s.procs {
			if p.done || p.at != "" {
				p.parked = ""
				continue
			}
			st, ok := status[p.gid]
			if ok && blockedStatus[st] {
				p.parked = st
				continue
			}
			p.parked = ""
			settled = false
		}
		s.mu.Unlock()
		if settled && e1 == atomic.LoadInt64(&s.epoch) {
			// confirm with a second look that nothing moved in between
			status2 := s.dumpStatus()
			same := e1 == atomic.LoadInt64(&s.epoch)
			s.mu.Lock()
			for _, p := range s.procs {
				if p.done || p.at != "" {
					continue
				}
				if st := status2[p.gid]; !blockedStatus[st] {
					same = false
				}
			}
			s.mu.Unlock()
			if same {
				return nil
			}
		}
		if time.Now().After(deadline) {
			return fmt.Errorf("sched: system did not settle within %v: %v", SettleTimeout, s.Locs())
		}
		if spins < 200 {
			time.Sleep(100 * time.Microsecond)
		} else {
			time.Sleep(2 * time.Millisecond)
		}
	}
}

func (s *Sched) allAtGate() bool {
	s.mu.Lock()
	defer s.mu.Unlock()
	for _, p := range s.procs {
		if !p.done && p.at == "" {
			return false
		}
	}
	return true
}

// Quiescent reports whether no process is at a gate (all done or parked).
func (s *Sched) Quiescent() bool {
	return len(s.AtGate()) == 0
}

var dumpBuf = make([]byte, 1<<20)
var dumpMu sync.Mutex

// dumpStatus parses a full stack dump into goroutine id -> wait reason.
func (s *Sched) dumpStatus() map[uint64]string {
	dumpMu.Lock()
	defer dumpMu.Unlock()
	s.Dumps++
	var n int
	for {
		n = runtime.Stack(dumpBuf, true)
		if n < len(dumpBuf) {
			break
		}
		dumpBuf = make([]byte, 2*len(dumpBuf))
	}
	out := map[uint64]string{}
	b := dumpBuf[:n]
	prefix := []byte("goroutine ")
	for len(b) > 0 {
		nl := bytes.IndexByte(b, '\n')
		var line []byte
		if nl < 0 {
			line, b = b, nil
		} else {
			line, b = b[:nl], b[nl+1:]
		}
		if !bytes.HasPrefix(line, prefix) {
			continue
		}
		rest := line[len(prefix):]
		sp := bytes.IndexByte(rest, ' ')
		if sp < 0 {
			continue
		}
		id, err := strconv.ParseUint(string(rest[:sp]), 10, 64)
		if err != nil {
			continue
		}
		lb := bytes.IndexByte(rest, '[')
		rb := bytes.IndexByte(rest, ']')
		if lb < 0 || rb < lb {
			continue
		}
		st := rest[lb+1 : rb]
		if c := bytes.IndexByte(st, ','); c >= 0 {
			st = st[:c]
		}
		out[id] = string(st)
	}
	return out
}

// quietStatus: wait reasons of goroutines that can only continue when somebody else acts (or never):
// everything else (running, runnable, syscall, sleep, ...) means the program is still moving by itself.
var quietStatus = map[string]bool{
	"select": true, "chan receive": true, "chan send": true,
	"sync.Mutex.Lock": true, "sync.RWMutex.Lock": true, "sync.RWMutex.RLock": true,
	"semacquire": true, "sync.Cond.Wait": true, "sync.WaitGroup.Wait": true,
	"IO wait": true, "select (no cases)": true, "chan receive (nil chan)": true, "chan send (nil chan)": true,
	"GC worker (idle)": true, "GC sweep wait": true, "GC scavenge wait": true, "force gc (idle)": true,
	"finalizer wait": true, "debug call": false, "cleanup wait": true, "GC assist wait": false,
	"timer goroutine (idle)": true, "trace reader (blocked)": true,
}

// AllQuiet reports whether every goroutine other than the caller is blocked waiting for somebody else
// (read from the goroutine statuses of a full stack dump). A goroutine that sleeps, runs, is runnable or
// sits in a system call makes the answer false: it will move on by itself.
func AllQuiet() bool {
	s := &Sched{}
	self := Gid()
	for id, st := range s.dumpStatus() {
		if id == self {
			continue
		}
		if !quietStatus[st] {
			return false
		}
	}
	return true
}

// WaitQuiet waits until AllQuiet holds on three consecutive looks (or the time-out passes, which is a
// harness problem, never a verdict) and reports whether it did.
func WaitQuiet(timeout time.Duration) bool {
	deadline := time.Now().Add(timeout)
	streak := 0
	for time.Now().Before(deadline) {
		if AllQuiet() {
			streak++
			if streak >= 3 {
				return true
			}
			runtime.Gosched()
			time.Sleep(200 * time.Microsecond)
			continue
		}
		streak = 0
		time.Sleep(500 * time.Microsecond)
	}
	return false
}
