package main

// Wire driver (C17): runs Write / Writev / Flush / Read sequences on transport.NewTransport over a
// scripted in-memory net.Conn that records every connection write and serves reads in prescribed
// fragments; records the segments per operation for TLC (Wire.tla models bufio exactly) and
// compares bytes with the written / the peer's stream.

import (
	"fmt"
	"io"
	"math/rand"
	"net"
	"time"

	"github.com/go-netty/go-netty/transport"
)

type WireOp struct {
	Op string `json:"op"` // write writev flush read
	N  int    `json:"n"`
	Ns []int  `json:"ns"`
	D  int    `json:"d"`
}

type WireCase struct {
	ID     string   `json:"id"`
	W      int      `json:"w"`
	R      int      `json:"r"`
	Frags  []int    `json:"frags"`
	Ops    []WireOp `json:"ops"`
	Random int      `json:"random"`
	Sizes  []int    `json:"sizes"`
	Seed   int64    `json:"seed"`
}

type WireEvent struct {
	Case string  `json:"case,omitempty"`
	Op   string  `json:"op"`
	N    int     `json:"n"`
	Ns   []int   `json:"ns"`
	D    int     `json:"d"`
	Segs [][]int `json:"segs"`
}

type WireResult struct {
	ID         string         `json:"id"`
	Events     []WireEvent    `json:"events"`
	Fails      []Fail         `json:"fails"`
	HarnessErr string         `json:"harness_err,omitempty"`
	Diverged   int            `json:"diverged"`
	Actions    map[string]int `json:"actions"`
}

// scribble overwrites a buffer the transport has given back (0 never occurs in the expected stream).
func scribble(b []byte) {
	for i := range b {
		b[i] = 0
	}
}

func streamByte(seed int64, i int) byte {
	x := uint64(seed)*6364136223846793005 + uint64(i)*1442695040888963407
	x ^= x >> 29
	return byte(x>>13) | 1
}

type scriptConn struct {
	seed     int64
	received int     // bytes of the written stream received so far
	segs     [][]int // segments of the current operation
	bad      string
	frags    []int
	peerPos  int
}

func (c *scriptConn) Write(p []byte) (int, error) {
	for i, b := range p {
		if b != streamByte(c.seed, c.received+i) && c.bad == "" {
			c.bad = fmt.Sprintf("connection write at offset %d (+%d) carries a byte that is not the next byte of the written stream", c.received, i)
		}
	}
	if len(p) > 0 {
		c.segs = append(c.segs, []int{c.received, len(p)})
	}
	c.received += len(p)
	return len(p), nil
}

func (c *scriptConn) Read(p []byte) (int, error) {
	if len(c.frags) == 0 {
		return 0, io.EOF
	}
	k := len(p)
	if k > c.frags[0] {
		k = c.frags[0]
	}
	for i := 0; i < k; i++ {
		p[i] = streamByte(c.seed+7, c.peerPos+i)
	}
	c.peerPos += k
	if k == c.frags[0] {
		c.frags = c.frags[1:]
	} else {
		c.frags[0] -= k
	}
	return k, nil
}

func (c *scriptConn) Close() error                       { return nil }
func (c *scriptConn) LocalAddr() net.Addr                { return nil }
func (c *scriptConn) RemoteAddr() net.Addr               { return nil }
func (c *scriptConn) SetDeadline(t time.Time) error      { return nil }
func (c *scriptConn) SetReadDeadline(t time.Time) error  { return nil }
func (c *scriptConn) SetWriteDeadline(t time.Time) error { return nil }

func runWireCase(c *WireCase) *WireResult {
	res := &WireResult{ID: c.ID, Fails: []Fail{}, Actions: map[string]int{}}
	failed := map[string]bool{}
	fail := func(key, msg string, step int) {
		if !failed[key] {
			failed[key] = true
			res.Fails = append(res.Fails, Fail{Prop: "C17", Key: key, Msg: msg, Step: step})
		}
	}
	conn := &scriptConn{seed: c.Seed, frags: append([]int(nil), c.Frags...)}
	tr := transport.NewTransport(conn, c.R, c.W)
	rnd := rand.New(rand.NewSource(c.Seed))
	ops := append([]WireOp(nil), c.Ops...)
	for i := 0; i < c.Random; i++ {
		sz := func() int { return c.Sizes[rnd.Intn(len(c.Sizes))] }
		switch rnd.Intn(5) {
		case 0, 1:
			ops = append(ops, WireOp{Op: "write", N: sz()})
		case 2:
			k := 1 + rnd.Intn(3)
			var ns []int
			for j := 0; j < k; j++ {
				ns = append(ns, sz())
			}
			ops = append(ops, WireOp{Op: "writev", Ns: ns})
		case 3:
			ops = append(ops, WireOp{Op: "flush"})
		default:
			d := sz()
			if d == 0 {
				d = 1
			}
			ops = append(ops, WireOp{Op: "read", D: d})
		}
	}
	written, readPos := 0, 0
	mk := func(n int) []byte {
		b := make([]byte, n)
		for i := range b {
			b[i] = streamByte(c.Seed, written+i)
		}
		written += n
		return b
	}
	for step, op := range ops {
		conn.segs = [][]int{}
		ev := WireEvent{Op: op.Op, N: op.N, Ns: op.Ns, D: op.D}
		if ev.Ns == nil {
			ev.Ns = []int{}
		}
		switch op.Op {
		case "write":
			wb := mk(op.N)
			n, err := tr.Write(wb)
			scribble(wb) // Write has returned: the buffer is the caller's again
			if err != nil || n != op.N {
				fail("write-result", fmt.Sprintf("Write(%d bytes) returned (%d, %v)", op.N, n, err), step)
			}
		case "writev":
			var bufs net.Buffers
			total := 0
			for _, k := range op.Ns {
				bufs = append(bufs, mk(k))
				total += k
			}
			held := append(net.Buffers(nil), bufs...)
			n, err := tr.Writev(bufs)
			for _, b := range held {
				scribble(b)
			}
			if err != nil || int(n) != total {
				fail("writev-result", fmt.Sprintf("Writev(%v) returned (%d, %v)", op.Ns, n, err), step)
			}
			ev.N = total
		case "flush":
			if err := tr.Flush(); err != nil {
				fail("flush-result", fmt.Sprintf("Flush returned %v", err), step)
			}
			if conn.received != written {
				fail("flush-incomplete", fmt.Sprintf("after Flush the connection has %d of the %d bytes written (W=%d)", conn.received, written, c.W), step)
			}
		case "read":
			p := make([]byte, op.D)
			n, err := tr.Read(p)
			for i := 0; i < n; i++ {
				if p[i] != streamByte(c.Seed+7, readPos+i) {
					fail("read-bytes", fmt.Sprintf("Read returned bytes that are not the next bytes of the peer's stream (offset %d, R=%d)", readPos+i, c.R), step)
					break
				}
			}
			readPos += n
			ev.N = n
			_ = err
		}
		if conn.bad != "" {
			fail("reorder", conn.bad+fmt.Sprintf(" (W=%d, operation %d: %s)", c.W, step, op.Op), step)
		}
		ev.Segs = conn.segs
		res.Actions[op.Op]++
		res.Events = append(res.Events, ev)
	}
	return res
}
