module verifharness

go 1.21

require github.com/go-netty/go-netty v0.0.0

replace github.com/go-netty/go-netty => /repo
