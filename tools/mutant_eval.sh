#!/bin/bash
# mutant_eval.sh <PROP> <dir with patch.diff + *_test.go demo> [check-tier]
# 1. confirms the mutant in a scratch worktree: demo passes clean; with the patch: builds, suite passes, demo fails
# 2. applies it to /repo, runs ./check <PROP>, undoes it
export GOFLAGS=-mod=mod GOPROXY=off GOSUMDB=off GOTOOLCHAIN=local
P=$1; D=$(realpath $2); TIER=${3:-quick}; PKG=${4:-.}
WT=/tmp/mut/eval-$$
git -C /repo worktree add -q --detach $WT HEAD || exit 2
cleanup() { git -C /repo worktree remove --force $WT >/dev/null 2>&1; }
trap cleanup EXIT
cd $WT
for f in $D/*_test.go; do cp $f $WT/$PKG/zz_$(basename $f); done
echo "--- clean tree: demo"
go test -vet=off -count=1 -run 'Demo|Mut|TestC[0-9]' ./$PKG 2>&1 | tail -3
CLEAN=${PIPESTATUS[0]}
rm -f $WT/$PKG/zz_*_test.go
git apply $D/patch.diff || { echo "PATCH DOES NOT APPLY"; exit 2; }
echo "--- patched: build + suite"
go build ./... && go build -tags verif ./... && go test -vet=off -count=1 ./... 2>&1 | grep -v 'no test files' | grep -v '^ok' | tail -5
SUITE=${PIPESTATUS[0]}
for f in $D/*_test.go; do cp $f $WT/$PKG/zz_$(basename $f); done
echo "--- patched: demo"
go test -vet=off -count=1 -run 'Demo|Mut|TestC[0-9]' ./$PKG 2>&1 | tail -4
echo "clean_demo_rc=$CLEAN"
cd /verif
if [ "$TIER" != "none" ]; then
  rm -f $WT/$PKG/zz_*_test.go
  echo "--- ./check $P --tier $TIER on the mutated tree $WT"
  VERIF_REPO=$WT ./check $P --tier $TIER 2>&1 | grep -v '^  TLC\|^  random\|^  replay\|^  pool' | tail -6 | cut -c1-300
  echo "check_rc=${PIPESTATUS[0]}"
fi
