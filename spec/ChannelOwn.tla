----------------------------- MODULE ChannelOwn -----------------------------
(***************************************************************************)
(* Channel (open, queued, no faults) refines the counting abstraction      *)
(* Ownership.tla, whose safety core is proved inductive for unbounded      *)
(* writers / queue by Apalache.  TLC checks the step simulation on the     *)
(* bounded Channel configurations: every Channel step is an Ownership step *)
(* or stutters under the mapping below.                                    *)
(***************************************************************************)
EXTENDS Channel

CountAt(S) == Cardinality({p \in Procs : pc[p] \in S})

Own == INSTANCE Ownership WITH
    q <- Len(queue),
    running <- running,
    ncas <- CountAt({"w.cas"}),
    nstart <- Cardinality({p \in Procs \ {"R"} : pc[p] = "x.start"}),
    drain <- CountAt({"s.poll", "t.writev", "s.len"}),
    rel <- CountAt({"t.flush", "s.release"}),
    chk <- CountAt({"s.recheck"}),
    recas <- CountAt({"s.recas"})

RefinesOwnership == Own!Spec
OwnIndInv == Own!IndInv
=============================================================================
