package main

import (
	"bufio"
	"encoding/json"
	"flag"
	"fmt"
	"os"
)

// driver <module> -in cases.ndjson -out results.ndjson
// one JSON case per input line, one JSON result per output line.
func main() {
	if len(os.Args) < 2 {
		fmt.Fprintln(os.Stderr, "usage: driver <chan|...> -in file -out file")
		os.Exit(2)
	}
	mod := os.Args[1]
	fs := flag.NewFlagSet(mod, flag.ExitOnError)
	in := fs.String("in", "", "input ndjson")
	out := fs.String("out", "", "output ndjson")
	shard := fs.Int("shard", 0, "shard index")
	shards := fs.Int("shards", 1, "number of shards")
	fs.Parse(os.Args[2:])
	fin, err := os.Open(*in)
	if err != nil {
		fmt.Fprintln(os.Stderr, err)
		os.Exit(2)
	}
	defer fin.Close()
	fout, err := os.Create(*out)
	if err != nil {
		fmt.Fprintln(os.Stderr, err)
		os.Exit(2)
	}
	bw := bufio.NewWriterSize(fout, 1<<20)
	defer func() { bw.Flush(); fout.Close() }()
	sc := bufio.NewScanner(fin)
	sc.Buffer(make([]byte, 1<<20), 1<<28)
	enc := json.NewEncoder(bw)
	line := 0
	for sc.Scan() {
		line++
		if (line-1)%*shards != *shard {
			continue
		}
		b := sc.Bytes()
		if len(b) == 0 {
			continue
		}
		var res interface{}
		switch mod {
		case "chan":
			var c ChanCase
			if err := json.Unmarshal(b, &c); err != nil {
				fmt.Fprintf(os.Stderr, "line %d: %v\n", line, err)
				os.Exit(2)
			}
			res = runChanCase(&c)
		case "pipe":
			var c PipeCase
			if err := json.Unmarshal(b, &c); err != nil {
				fmt.Fprintf(os.Stderr, "line %d: %v\n", line, err)
				os.Exit(2)
			}
			res = runPipeCase(&c)
		case "boot":
			var c BootCase
			if err := json.Unmarshal(b, &c); err != nil {
				fmt.Fprintf(os.Stderr, "line %d: %v\n", line, err)
				os.Exit(2)
			}
			res = runBootCase(&c)
		case "frame":
			var c FrameCase
			if err := json.Unmarshal(b, &c); err != nil {
				fmt.Fprintf(os.Stderr, "line %d: %v\n", line, err)
				os.Exit(2)
			}
			res = runFrameCase(&c)
		case "chanfree":
			var c ChanFreeCase
			if err := json.Unmarshal(b, &c); err != nil {
				fmt.Fprintf(os.Stderr, "line %d: %v\n", line, err)
				os.Exit(2)
			}
			res = runChanFreeCase(&c)
		case "tcp":
			var c TcpCase
			if err := json.Unmarshal(b, &c); err != nil {
				fmt.Fprintf(os.Stderr, "line %d: %v\n", line, err)
				os.Exit(2)
			}
			res = runTcpCase(&c)
		case "wire":
			var c WireCase
			if err := json.Unmarshal(b, &c); err != nil {
				fmt.Fprintf(os.Stderr, "line %d: %v\n", line, err)
				os.Exit(2)
			}
			res = runWireCase(&c)
		case "carrier":
			var c CarrierCase
			if err := json.Unmarshal(b, &c); err != nil {
				fmt.Fprintf(os.Stderr, "line %d: %v\n", line, err)
				os.Exit(2)
			}
			res = runCarrierCase(&c)
		case "idle":
			var c IdleCase
			if err := json.Unmarshal(b, &c); err != nil {
				fmt.Fprintf(os.Stderr, "line %d: %v\n", line, err)
				os.Exit(2)
			}
			res = runIdleCase(&c)
		case "http":
			var c HttpCase
			if err := json.Unmarshal(b, &c); err != nil {
				fmt.Fprintf(os.Stderr, "line %d: %v\n", line, err)
				os.Exit(2)
			}
			res = runHttpCase(&c)
		case "pool":
			var c PoolCase
			if err := json.Unmarshal(b, &c); err != nil {
				fmt.Fprintf(os.Stderr, "line %d: %v\n", line, err)
				os.Exit(2)
			}
			res = runPoolCase(&c)
		default:
			fmt.Fprintln(os.Stderr, "unknown module", mod)
			os.Exit(2)
		}
		if err := enc.Encode(res); err != nil {
			fmt.Fprintln(os.Stderr, err)
			os.Exit(2)
		}
	}
	if err := sc.Err(); err != nil {
		fmt.Fprintln(os.Stderr, err)
		os.Exit(2)
	}
}
