package main

// Real-TCP driver: the same observable oracles as the wire (C17) and bootstrap (C13) drivers, but over
// loopback sockets created by the shipped tcp transport factory (transport/tcp). Free-running: nothing is
// gated here and nothing is validated by TLC; these runs put transport/tcp/{factory,transport,options}.go
// under the oracles that the model-based replays evaluate on the mock factory / the scripted connection.

import (
	"context"
	"fmt"
	"math/rand"
	"net"
	"runtime"
	"strings"
	"sync"
	"sync/atomic"
	"time"

	netty "github.com/go-netty/go-netty"
	"github.com/go-netty/go-netty/transport"
	"github.com/go-netty/go-netty/transport/tcp"
)

type TcpCase struct {
	ID   string `json:"id"`
	Kind string `json:"kind"` // wire | boot
	// wire
	W      int      `json:"w"`
	R      int      `json:"r"`
	Side   string   `json:"side"` // connect | accept: which end of the factory produces the transport under test
	Frags  []int    `json:"frags"`
	Ops    []WireOp `json:"ops"`
	Random int      `json:"random"`
	Sizes  []int    `json:"sizes"`
	Seed   int64    `json:"seed"`
	Duplex bool     `json:"duplex"` // wire: the reads run on a goroutine of their own, concurrently with the writes (as a channel's read loop does)
	// boot
	Listeners  int  `json:"listeners"`
	Clients    int  `json:"clients"`     // channels connected through Bootstrap.Connect
	RawPeers   int  `json:"raw_peers"`   // plain TCP connections to the listeners
	EarlyShut  bool `json:"early_shut"`  // Shutdown does not wait for the connects to finish
	LateListen bool `json:"late_listen"` // Listener.Sync is started without waiting for it to listen
}

type TcpResult struct {
	ID         string         `json:"id"`
	Fails      []Fail         `json:"fails"`
	HarnessErr string         `json:"harness_err,omitempty"`
	Diverged   int            `json:"diverged"`
	Actions    map[string]int `json:"actions"`
	Events     []WireEvent    `json:"events"`
}

func containsInt(xs []int, x int) bool {
	for _, y := range xs {
		if y == x {
			return true
		}
	}
	return false
}

func freePort() (int, error) {
	l, err := net.Listen("tcp", "127.0.0.1:0")
	if err != nil {
		return 0, err
	}
	p := l.Addr().(*net.TCPAddr).Port
	_ = l.Close()
	return p, nil
}

// peerSink reads everything the transport under test sends and compares it with the expected stream.
type peerSink struct {
	mu       sync.Mutex
	seed     int64
	received int
	bad      string
	eof      bool
}

func (p *peerSink) run(c net.Conn) {
	buf := make([]byte, 32768)
	for {
		n, err := c.Read(buf)
		p.mu.Lock()
		for i := 0; i < n; i++ {
			if buf[i] != streamByte(p.seed, p.received+i) && p.bad == "" {
				p.bad = fmt.Sprintf("the peer received at offset %d a byte that is not the next byte of the written stream", p.received+i)
			}
		}
		p.received += n
		if err != nil {
			p.eof = true
		}
		p.mu.Unlock()
		if err != nil {
			return
		}
	}
}

func (p *peerSink) snapshot() (int, string, bool) {
	p.mu.Lock()
	defer p.mu.Unlock()
	return p.received, p.bad, p.eof
}

func runTcpCase(c *TcpCase) *TcpResult {
	res := &TcpResult{ID: c.ID, Fails: []Fail{}, Actions: map[string]int{}}
	if c.Kind == "boot" {
		runTcpBoot(c, res)
	} else {
		runTcpWire(c, res)
	}
	return res
}

func runTcpWire(c *TcpCase, res *TcpResult) {
	failed := map[string]bool{}
	var fmu sync.Mutex
	fail := func(key, msg string, step int) {
		fmu.Lock()
		defer fmu.Unlock()
		if !failed[key] {
			failed[key] = true
			res.Fails = append(res.Fails, Fail{Prop: "C17", Key: key, Msg: msg, Step: step})
		}
	}
	rnd := rand.New(rand.NewSource(c.Seed))
	topt := &tcp.Options{Timeout: 3 * time.Second, KeepAlive: true, KeepAlivePeriod: time.Minute, Linger: -1,
		NoDelay: c.Seed%2 == 0, ReadBufferSize: c.R, WriteBufferSize: c.W}
	if c.Seed%3 == 0 {
		topt.SockBuf = 16384
	}
	factory := tcp.New()
	var tr transport.Transport
	var peer net.Conn
	if c.Side == "accept" {
		port, err := freePort()
		if err != nil {
			res.HarnessErr = err.Error()
			return
		}
		opts, err := transport.ParseOptions(context.Background(), fmt.Sprintf("tcp://127.0.0.1:%d", port), tcp.WithOptions(topt))
		if err != nil {
			res.HarnessErr = err.Error()
			return
		}
		acc, err := factory.Listen(opts)
		if err != nil {
			res.Diverged++ // the port was taken in between: not a verdict
			return
		}
		defer acc.Close()
		done := make(chan error, 1)
		go func() {
			t, err := acc.Accept()
			tr = t
			done <- err
		}()
		peer, err = net.DialTimeout("tcp", fmt.Sprintf("127.0.0.1:%d", port), 3*time.Second)
		if err != nil {
			fail("accept-side", fmt.Sprintf("a listening acceptor of the tcp factory refused a connection: %v", err), 0)
			return
		}
		select {
		case err := <-done:
			if err != nil || tr == nil {
				fail("accept-side", fmt.Sprintf("Accept returned (%v, %v) for an established connection", tr, err), 0)
				return
			}
		case <-time.After(5 * time.Second):
			fail("accept-side", "Accept did not return an established connection within 5s", 0)
			return
		}
	} else {
		ln, err := net.Listen("tcp", "127.0.0.1:0")
		if err != nil {
			res.HarnessErr = err.Error()
			return
		}
		defer ln.Close()
		port := ln.Addr().(*net.TCPAddr).Port
		opts, err := transport.ParseOptions(context.Background(), fmt.Sprintf("tcp://127.0.0.1:%d", port), tcp.WithOptions(topt))
		if err != nil {
			res.HarnessErr = err.Error()
			return
		}
		tr, err = factory.Connect(opts)
		if err != nil {
			fail("connect-side", fmt.Sprintf("Connect to a listening socket failed: %v", err), 0)
			return
		}
		peer, err = ln.Accept()
		if err != nil {
			res.HarnessErr = err.Error()
			return
		}
	}
	defer peer.Close()
	sink := &peerSink{seed: c.Seed}
	go sink.run(peer)
	// the peer's own stream, written in the prescribed fragments
	total := 0
	for _, f := range c.Frags {
		total += f
	}
	go func() {
		pos := 0
		for _, f := range c.Frags {
			b := make([]byte, f)
			for i := range b {
				b[i] = streamByte(c.Seed+7, pos+i)
			}
			pos += f
			if _, err := peer.Write(b); err != nil {
				return
			}
			time.Sleep(200 * time.Microsecond)
		}
	}()
	ops := append([]WireOp(nil), c.Ops...)
	for i := 0; i < c.Random; i++ {
		sz := func() int { return c.Sizes[rnd.Intn(len(c.Sizes))] }
		switch rnd.Intn(5) {
		case 0, 1:
			ops = append(ops, WireOp{Op: "write", N: sz()})
		case 2:
			k := 1 + rnd.Intn(3)
			var ns []int
			for j := 0; j < k; j++ {
				ns = append(ns, sz())
			}
			ops = append(ops, WireOp{Op: "writev", Ns: ns})
		case 3:
			ops = append(ops, WireOp{Op: "flush"})
		default:
			d := sz()
			if d == 0 {
				d = 1
			}
			ops = append(ops, WireOp{Op: "read", D: d})
		}
	}
	ops = append(ops, WireOp{Op: "flush"})
	written, readPos := 0, 0
	mk := func(n int) []byte {
		b := make([]byte, n)
		for i := range b {
			b[i] = streamByte(c.Seed, written+i)
		}
		written += n
		return b
	}
	waitPeer := func(want int) int {
		deadline := time.Now().Add(5 * time.Second)
		for {
			got, _, _ := sink.snapshot()
			if got >= want || time.Now().After(deadline) {
				return got
			}
			time.Sleep(200 * time.Microsecond)
		}
	}
	// full duplex: a channel reads on its read-loop goroutine while other goroutines write. The reads of the script
	// are taken out and run concurrently; Read and Write/Flush share nothing but the connection.
	var rwg sync.WaitGroup
	if c.Duplex {
		var reads []WireOp
		var rest []WireOp
		for _, op := range ops {
			if op.Op == "read" {
				reads = append(reads, op)
			} else {
				rest = append(rest, op)
			}
		}
		ops = rest
		rwg.Add(1)
		go func() {
			defer rwg.Done()
			pos := 0
			for _, op := range reads {
				if pos >= total {
					return
				}
				_ = tr.SetReadDeadline(time.Now().Add(5 * time.Second))
				p := make([]byte, op.D)
				n, err := tr.Read(p)
				if n == 0 && err != nil {
					fail("read-stall", fmt.Sprintf("concurrent Read returned (0, %v) although the peer has sent %d bytes and %d were read (R=%d)", err, total, pos, c.R), -1)
					return
				}
				for i := 0; i < n; i++ {
					if pos+i >= total || p[i] != streamByte(c.Seed+7, pos+i) {
						fail("read-bytes", fmt.Sprintf("concurrent Read returned bytes that are not the next bytes of the peer's stream (offset %d, R=%d)", pos+i, c.R), -1)
						return
					}
				}
				pos += n
			}
		}()
	}
	for step, op := range ops {
		switch op.Op {
		case "write":
			wb := mk(op.N)
			n, err := tr.Write(wb)
			scribble(wb) // Write has returned: the buffer is the caller's again
			if err != nil || n != op.N {
				fail("write-result", fmt.Sprintf("Write(%d bytes) returned (%d, %v)", op.N, n, err), step)
			}
		case "writev":
			var bufs net.Buffers
			t := 0
			for _, k := range op.Ns {
				bufs = append(bufs, mk(k))
				t += k
			}
			held := append(net.Buffers(nil), bufs...)
			n, err := tr.Writev(bufs)
			for _, b := range held {
				scribble(b)
			}
			if err != nil || int(n) != t {
				fail("writev-result", fmt.Sprintf("Writev(%v) returned (%d, %v)", op.Ns, n, err), step)
			}
		case "flush":
			if err := tr.Flush(); err != nil {
				fail("flush-result", fmt.Sprintf("Flush returned %v", err), step)
			}
			if got := waitPeer(written); got != written {
				fail("flush-incomplete", fmt.Sprintf("5s after Flush the peer has %d of the %d bytes written (W=%d, side %s)", got, written, c.W, c.Side), step)
			}
		case "read":
			if readPos >= total {
				res.Diverged++
				continue
			}
			_ = tr.SetReadDeadline(time.Now().Add(5 * time.Second))
			p := make([]byte, op.D)
			n, err := tr.Read(p)
			if n == 0 && err != nil {
				fail("read-stall", fmt.Sprintf("Read returned (0, %v) although the peer has sent %d bytes and %d were read (R=%d)", err, total, readPos, c.R), step)
				continue
			}
			for i := 0; i < n; i++ {
				if readPos+i >= total || p[i] != streamByte(c.Seed+7, readPos+i) {
					fail("read-bytes", fmt.Sprintf("Read returned bytes that are not the next bytes of the peer's stream (offset %d, R=%d)", readPos+i, c.R), step)
					break
				}
			}
			readPos += n
		}
		if got, bad, _ := sink.snapshot(); bad != "" {
			fail("reorder", bad+fmt.Sprintf(" (W=%d, operation %d: %s)", c.W, step, op.Op), step)
		} else if got > written {
			fail("phantom-bytes", fmt.Sprintf("the peer received %d bytes, only %d were written", got, written), step)
		}
		res.Actions["tcp-"+op.Op]++
	}
	rwg.Wait()
	// closing the transport ends the peer's stream with exactly the written bytes
	if err := tr.Close(); err != nil {
		fail("close-result", fmt.Sprintf("Close returned %v", err), len(ops))
	}
	deadline := time.Now().Add(5 * time.Second)
	for {
		got, bad, eof := sink.snapshot()
		if eof || time.Now().After(deadline) {
			if !eof {
				fail("close-not-seen", "5s after Close the peer has not seen the end of the stream", len(ops))
			}
			if got != written {
				fail("close-lost", fmt.Sprintf("at end of stream the peer has %d of the %d bytes written", got, written), len(ops))
			}
			if bad != "" {
				fail("reorder", bad, len(ops))
			}
			break
		}
		time.Sleep(200 * time.Microsecond)
	}
}

// ---------------------------------------------------------------- bootstrap over real TCP (C13)

type tcpProbe struct {
	mu       sync.Mutex
	active   map[netty.Channel]int
	inactive map[netty.Channel]int
	chans    []netty.Channel
	peers    map[string]bool // remote addresses of the channels this bootstrap served
}

func (p *tcpProbe) HandleActive(ctx netty.ActiveContext) {
	p.mu.Lock()
	p.active[ctx.Channel()]++
	p.chans = append(p.chans, ctx.Channel())
	if a := ctx.Channel().RemoteAddr(); a != "" {
		p.peers[a] = true
	}
	p.mu.Unlock()
	ctx.HandleActive()
}

func (p *tcpProbe) HandleInactive(ctx netty.InactiveContext, ex netty.Exception) {
	p.mu.Lock()
	p.inactive[ctx.Channel()]++
	p.mu.Unlock()
	ctx.HandleInactive(ex)
}

func (p *tcpProbe) HandleException(ctx netty.ExceptionContext, ex netty.Exception) {
	ctx.HandleException(ex)
}

func runTcpBoot(c *TcpCase, res *TcpResult) {
	failed := map[string]bool{}
	var fmu sync.Mutex
	fail := func(key, msg string) {
		fmu.Lock()
		defer fmu.Unlock()
		if !failed[key] {
			failed[key] = true
			res.Fails = append(res.Fails, Fail{Prop: "C13", Key: key, Msg: msg})
		}
	}
	rnd := rand.New(rand.NewSource(c.Seed))
	probe := &tcpProbe{active: map[netty.Channel]int{}, inactive: map[netty.Channel]int{}, peers: map[string]bool{}}
	init := func(ch netty.Channel) { ch.Pipeline().AddLast(probe) }
	bs := netty.NewBootstrap(netty.WithTransport(tcp.New()), netty.WithChildInitializer(init), netty.WithClientInitializer(init))
	var ports []int
	var ls []netty.Listener
	syncRet := make([]int32, c.Listeners) // 1 = Sync returned
	for i := 0; i < c.Listeners; i++ {
		port, err := freePort()
		for k := 0; k < 20 && err == nil && containsInt(ports, port); k++ {
			port, err = freePort() // the kernel handed out the port of the other listener again
		}
		if err != nil || containsInt(ports, port) {
			res.Diverged++
			bs.Shutdown()
			return
		}
		ports = append(ports, port)
		l := bs.Listen(fmt.Sprintf("tcp://127.0.0.1:%d", port))
		ls = append(ls, l)
		i := i
		go func() {
			_ = l.Sync()
			atomic.StoreInt32(&syncRet[i], 1)
		}()
	}
	if !c.LateListen {
		// wait until our own acceptors exist (asking the listener, not the port: somebody else may be listening there)
		for i, l := range ls {
			ok := false
			for k := 0; k < 2000 && !ok; k++ {
				if la, is := l.(interface{ Acceptor() transport.Acceptor }); is && la.Acceptor() != nil {
					ok = true
				} else if atomic.LoadInt32(&syncRet[i]) == 1 {
					break // Sync gave up: the port was taken in between
				} else {
					time.Sleep(time.Millisecond)
				}
			}
			if !ok {
				res.Diverged++ // not a verdict
				bs.Shutdown()
				return
			}
		}
	}
	// connections
	var wg sync.WaitGroup
	var cmu sync.Mutex
	var clientChans []netty.Channel
	var raws []net.Conn
	rawAt := map[net.Conn]time.Time{} // when the dial returned
	for i := 0; i < c.Clients; i++ {
		wg.Add(1)
		port := ports[rnd.Intn(len(ports))]
		delay := time.Duration(rnd.Intn(3000)) * time.Microsecond
		go func() {
			defer wg.Done()
			time.Sleep(delay)
			ch, err := bs.Connect(fmt.Sprintf("tcp://127.0.0.1:%d", port))
			if err == nil && ch != nil {
				cmu.Lock()
				clientChans = append(clientChans, ch)
				cmu.Unlock()
			}
		}()
	}
	for i := 0; i < c.RawPeers; i++ {
		wg.Add(1)
		port := ports[rnd.Intn(len(ports))]
		delay := time.Duration(rnd.Intn(3000)) * time.Microsecond
		go func() {
			defer wg.Done()
			time.Sleep(delay)
			conn, err := net.DialTimeout("tcp", fmt.Sprintf("127.0.0.1:%d", port), time.Second)
			if err == nil {
				cmu.Lock()
				raws = append(raws, conn)
				rawAt[conn] = time.Now()
				cmu.Unlock()
			}
		}()
	}
	if c.EarlyShut {
		time.Sleep(time.Duration(rnd.Intn(3500)) * time.Microsecond)
	} else {
		wg.Wait()
		time.Sleep(time.Duration(rnd.Intn(2000)) * time.Microsecond)
	}
	shutStart := time.Now()
	shutDone := make(chan struct{})
	go func() {
		bs.Shutdown()
		close(shutDone)
	}()
	select {
	case <-shutDone:
	case <-time.After(10 * time.Second):
		fail("shutdown-stuck", "Shutdown did not return within 10s")
		return
	}
	wg.Wait()
	res.Actions["tcp-shutdown"]++
	// everything must come to rest: poll up to 6s, then judge
	settled := func() (string, string) {
		for i := range ports {
			if atomic.LoadInt32(&syncRet[i]) == 0 {
				return "accept-loop-left", fmt.Sprintf("Listener.Sync of listener %d has not returned after Shutdown", i+1)
			}
		}
		probe.mu.Lock()
		chans := append([]netty.Channel(nil), probe.chans...)
		inact := map[netty.Channel]int{}
		for k, v := range probe.inactive {
			inact[k] = v
		}
		probe.mu.Unlock()
		for _, ch := range chans {
			if ch.IsActive() {
				return "channel-left-open", fmt.Sprintf("channel %d is still active after Shutdown", ch.ID())
			}
			if inact[ch] != 1 {
				return "channel-left-open", fmt.Sprintf("channel %d got %d inactive events after Shutdown", ch.ID(), inact[ch])
			}
		}
		cmu.Lock()
		cc := append([]netty.Channel(nil), clientChans...)
		rr := append([]net.Conn(nil), raws...)
		cmu.Unlock()
		for _, ch := range cc {
			if ch.IsActive() {
				return "channel-left-open", fmt.Sprintf("client channel %d returned by Connect is still active after Shutdown", ch.ID())
			}
		}
		for i, conn := range rr {
			// only connections this bootstrap accepted count: the port number may belong to somebody else's listener
			// (another process bound it between our probe and our Listen), and a connection still in our own backlog
			// is reset by the kernel when the acceptor closes - which is asked of the acceptor below
			probe.mu.Lock()
			ours := probe.peers[conn.LocalAddr().String()]
			probe.mu.Unlock()
			// ... or connected while our own acceptor verifiably held the port (bound before the peers dialled, not
			// yet asked to close): then it sits in our backlog and must be reset when the acceptor closes
			cmu.Lock()
			if at, ok := rawAt[conn]; ok && !c.LateListen && at.Before(shutStart) {
				ours = true
			}
			cmu.Unlock()
			if !ours {
				continue
			}
			_ = conn.SetReadDeadline(time.Now().Add(20 * time.Millisecond))
			var b [1]byte
			_, err := conn.Read(b[:])
			if ne, ok := err.(net.Error); err == nil || (ok && ne.Timeout()) {
				return "channel-left-open", fmt.Sprintf("raw peer %d still has an open connection to the server after Shutdown", i+1)
			}
		}
		// goroutines of the framework that must be gone
		buf := make([]byte, 1<<20)
		n := runtime.Stack(buf, true)
		for _, g := range strings.Split(string(buf[:n]), "\n\n") {
			if strings.Contains(g, "go-netty.(*channel).readLoop") {
				return "readloop-left", "a channel read loop is still running after Shutdown"
			}
			if strings.Contains(g, "go-netty.(*listener).Sync") {
				return "accept-loop-left", "an accept loop is still running after Shutdown"
			}
		}
		return "", ""
	}
	deadline := time.Now().Add(6 * time.Second)
	for {
		key, msg := settled()
		if key == "" {
			break
		}
		if time.Now().After(deadline) {
			fail(key, msg+" (6s grace)")
			break
		}
		time.Sleep(5 * time.Millisecond)
	}
	// the acceptor a listener obtained from the factory must be closed: Accept on it fails at once (asking the
	// acceptor itself, not the port number, which the kernel may already have given to somebody else)
	for i, l := range ls {
		la, ok := l.(interface{ Acceptor() transport.Acceptor })
		if !ok || la.Acceptor() == nil {
			continue
		}
		acc := la.Acceptor()
		got := make(chan error, 1)
		go func() {
			t, err := acc.Accept()
			if err == nil && t != nil {
				_ = t.Close()
			}
			got <- err
		}()
		select {
		case err := <-got:
			if err == nil {
				fail("acceptor-left-open", fmt.Sprintf("the acceptor of listener %d still accepts connections after Shutdown", i+1))
				_ = acc.Close()
			}
		case <-time.After(300 * time.Millisecond):
			fail("acceptor-left-open", fmt.Sprintf("the acceptor of listener %d is still open after Shutdown (Accept blocks)", i+1))
			_ = acc.Close()
		}
	}
	cmu.Lock()
	for _, conn := range raws {
		_ = conn.Close()
	}
	cmu.Unlock()
}
