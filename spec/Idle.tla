-------------------------------- MODULE Idle --------------------------------
(***************************************************************************)
(* handler.go read-idle / write-idle handlers: a discrete clock, the       *)
(* handler's timer (armed deadline), the last-IO stamp, the cached handler *)
(* context, and up to two timer callbacks in flight, each with the three   *)
(* sections of the code: check (under the read lock), deliver (trigger the *)
(* idle event), re-arm (under the read lock).                              *)
(***************************************************************************)
EXTENDS Integers, Sequences, FiniteSets, TLC

CONSTANTS
    D,        \* idle period in ticks
    Horizon,  \* the clock stops here (bounded model)
    MaxIO,    \* reads/writes passing the handler
    Urgent    \* TRUE: a due timer fires before anything else happens (what real timers do when a whole tick
              \* passes; used for the replay graph). FALSE: firing may lag arbitrarily (more behaviours)

VARIABLES now, phase, lastIO, tfield, deadline, hctx, cb, events, inflightAtInactive, afterInactive, nio

vars == <<now, phase, lastIO, tfield, deadline, hctx, cb, events, inflightAtInactive, afterInactive, nio>>

Slots == {1, 2}
IdleCb == [pc |-> "idle", gap |-> 0, ctx |-> FALSE]

Init ==
    /\ now = 0 /\ phase = "new" /\ lastIO = 0 /\ tfield = "nil" /\ deadline = -1 /\ hctx = FALSE
    /\ cb = [i \in Slots |-> IdleCb] /\ events = <<>> /\ inflightAtInactive = 0 /\ afterInactive = 0 /\ nio = 0

Due == deadline # -1 /\ now >= deadline
CanAct == ~(Urgent /\ Due)

\* HandleActive: cache the context, stamp, arm the timer
Active ==
    /\ phase = "new" /\ phase' = "active"
    /\ hctx' = TRUE /\ lastIO' = now /\ tfield' = "set" /\ deadline' = now + D
    /\ UNCHANGED <<now, cb, events, inflightAtInactive, afterInactive, nio>>

\* a read (write) passes the handler: stamp and reset the timer if there is one
IO ==
    /\ phase \in {"active", "inactive"} /\ nio < MaxIO /\ CanAct
    /\ lastIO' = now /\ nio' = nio + 1
    /\ deadline' = IF tfield = "set" THEN now + D ELSE deadline
    /\ UNCHANGED <<now, phase, tfield, hctx, cb, events, inflightAtInactive, afterInactive>>

Tick ==
    /\ now < Horizon /\ CanAct /\ now' = now + 1
    /\ UNCHANGED <<phase, lastIO, tfield, deadline, hctx, cb, events, inflightAtInactive, afterInactive, nio>>

\* the timer fires: a callback goroutine starts (first section not yet entered)
Fire(i) ==
    /\ deadline # -1 /\ now >= deadline /\ cb[i].pc = "idle"
    /\ \A j \in Slots : j < i => cb[j].pc # "idle"          \* lowest free slot
    /\ deadline' = -1
    /\ cb' = [cb EXCEPT ![i].pc = "i.cb"]
    /\ UNCHANGED <<now, phase, lastIO, tfield, hctx, events, inflightAtInactive, afterInactive, nio>>

\* check section: expired? context still there?
CbCheck(i) ==
    /\ cb[i].pc = "i.cb"
    /\ LET expired == now - lastIO >= D IN
       cb' = [cb EXCEPT ![i] = [pc |-> IF expired /\ hctx THEN "i.deliver" ELSE "i.rearm", gap |-> now - lastIO, ctx |-> hctx]]
    /\ UNCHANGED <<now, phase, lastIO, tfield, deadline, hctx, events, inflightAtInactive, afterInactive, nio>>

\* deliver the idle event (a panic of its handlers is contained: the callback goes on)
CbDeliver(i) ==
    /\ cb[i].pc = "i.deliver"
    /\ events' = Append(events, [gap |-> cb[i].gap, late |-> (phase = "inactive")])
    /\ afterInactive' = IF phase = "inactive" THEN afterInactive + 1 ELSE afterInactive
    /\ cb' = [cb EXCEPT ![i].pc = "i.rearm"]
    /\ UNCHANGED <<now, phase, lastIO, tfield, deadline, hctx, inflightAtInactive, nio>>

\* re-arm section: reset the timer if there still is one
CbRearm(i) ==
    /\ cb[i].pc = "i.rearm"
    /\ deadline' = IF tfield = "set" THEN now + D ELSE deadline
    /\ cb' = [cb EXCEPT ![i] = IdleCb]
    /\ UNCHANGED <<now, phase, lastIO, tfield, hctx, events, inflightAtInactive, afterInactive, nio>>

\* HandleInactive: forget the context, stop and drop the timer
Inactive ==
    /\ phase = "active" /\ CanAct /\ phase' = "inactive"
    /\ hctx' = FALSE /\ tfield' = "nil" /\ deadline' = -1
    /\ inflightAtInactive' = Cardinality({i \in Slots : cb[i].pc # "idle"})
    /\ UNCHANGED <<now, lastIO, cb, events, afterInactive, nio>>

Next == Active \/ IO \/ Tick \/ Inactive \/ \E i \in Slots : Fire(i) \/ CbCheck(i) \/ CbDeliver(i) \/ CbRearm(i)
Spec == Init /\ [][Next]_vars

-----------------------------------------------------------------------------
\* C20: an idle event is delivered only after a full idle period without IO (and since activation)
C20_NotEarly == \A k \in 1..Len(events) : events[k].gap >= D
\* while the handler is active its timer never silently dies: it is armed or a callback is in flight
C20_Persist == (phase = "active") => (deadline # -1 \/ \E i \in Slots : cb[i].pc # "idle")
\* after inactive nothing is timed any more; at most the callbacks already in flight may still deliver
C20_AfterInactive == (phase = "inactive") => (deadline = -1 /\ afterInactive <= inflightAtInactive)
C20_NoLateArm == (phase = "inactive" /\ \A i \in Slots : cb[i].pc = "idle") => deadline = -1
=============================================================================
