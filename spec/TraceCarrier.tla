----------------------------- MODULE TraceCarrier -----------------------------
EXTENDS Carrier, Json, IOUtils
Trace == ndJsonDeserialize(IOEnv.TRACE_FILE)
VARIABLE l
TraceInit == Init /\ l = 1 /\ TLCSet(1, 1)
Reset == script' = <<>> /\ phase' = "idle" /\ last' = [op |-> "none"]
TraceStep ==
    /\ l <= Len(Trace)
    /\ l' = l + 1
    /\ LET e == Trace[l] IN
       CASE e.op = "reset" -> Reset
         [] e.op = "readfrom" ->
              /\ ReadFrom(e.script)
              /\ last'.res.writes = e.writes /\ last'.res.n = e.n /\ last'.res.err = e.err
         [] e.op = "bytereader" ->
              /\ ByteReads(e.script)
              /\ last'.res.bytes = e.bytes /\ last'.res.err = e.err
         [] e.op = "steal" ->
              /\ Steal(e.script, e.reused)
              /\ Len(last'.res) = e.n
              /\ (last'.res = Seg(1, Content(UpToErr(e.script)))) = e.exact
TraceSpec == TraceInit /\ [][TraceStep]_<<vars, l>>
Mark == (l > TLCGet(1) => TLCSet(1, l)) /\ TRUE
TraceAccepted == PrintT(<<"HIGHWATER", TLCGet(1)>>) /\ TLCGet(1) = Len(Trace) + 1
=============================================================================
