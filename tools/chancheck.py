"""Checks of the Channel.tla family: C01 C02 C05 C06 C11 C18."""
import json, os, random, re, shutil, subprocess, time
from vlib import *
from chanlib import *

from core import *


def mc_and_replay_cex(cx, name, c, invariants, properties=(), spec="Spec", maxpolls=2, what="", timeout=900,
                      expect_violation=False, base="Channel"):
    """Model-check; a spec-level counterexample is never a verdict: it is replayed on the real code."""
    res = model_check(cx.wd, name, c, invariants, properties, spec=spec, maxpolls=maxpolls, timeout=timeout, base=base)
    cx.add_mc(res, c, what or name)
    log("  TLC %s: %s distinct, violated=%s, t=%.1fs" % (what or name, res.get("distinct"), res.get("violated"), time.time() - cx.t0))
    if res["violated"]:
        sched = schedule_of_trace(res["trace"])
        log("  TLC: %s violated in %s (%d-step counterexample) -> replaying on the real code" % (res["violated"], name, len(sched)))
        cc = dict(c)
        cases = [go_case(cc, "%s-cex-%d" % (name, i), cx.rnd, schedule=sched, sizes=SMALL_SIZES) for i in range(3)]
        results = run_driver(cx.driver, "chan", cases, cx.wd, tag=name + "cex")
        before = len(cx.fails)
        cx.absorb(results, cases)
        reproduced = len(cx.fails) > before
        return res, sched, reproduced
    return res, None, False


def amplify(cx, name, c, results, v, per_case=24, max_cases=8):
    """Divergence amplification: an execution TLC rejected has left the behaviours of the specification.
    Its schedule up to the rejected step is re-executed and continued with many seeded random schedules,
    so that whatever the unmodelled behaviour breaks has a chance to show at the observable level."""
    byid = {r["id"]: r for r in results}
    rej = [(rid, step) for rid, step, _ in v["rejected"] if step > 0]
    if not rej:
        return
    # keep what was recorded around the first rejected step for diagnosis
    for rid, step in rej[:2]:
        r = byid[rid]
        cx.notes.append({"nonconforming_case": rid, "step": step, "config": c,
                         "events_before": [{"p": e["p"], "a": e["a"], "pcs": {k: x for k, x in e["pcs"].items() if x != "none"}, "st": e["st"], "rets": e["rets"]}
                                           for e in r["events"][max(0, step - 4):step]]})
    cx.rnd.shuffle(rej)
    rej = rej[:max_cases]
    cases = []
    for rid, step in rej:
        r = byid[rid]
        prefix = [s[:2] for s in r["sched"][:step]]
        for k in range(per_case):
            pol = ("uniform", "pct", "window")[k % 3]
            cases.append(go_case(c, "%s-amp-%s-%d" % (name, rid, k), cx.rnd, schedule=prefix,
                                 rand={"seed": cx.rnd.randrange(1 << 40), "policy": pol, "depth": 3},
                                 sizes=SMALL_SIZES, notrace=True))
    res = run_driver(cx.driver, "chan", cases, cx.wd, tag=name + "amp")
    cx.absorb(res, cases)
    cx.extra_cov["divergence_amplification_runs"] = cx.extra_cov.get("divergence_amplification_runs", 0) + len(cases)


def replay_graph(cx, name, c, max_paths=None, maxpolls=2, sizes=None, timeout=900):
    """Edge cover of the state graph of c replayed on the real code, traces validated by TLC,
    walked edges measured."""
    init, adj, sig, res = graph_of(cx.wd, name + "G", c, maxpolls=maxpolls, timeout=timeout)
    cx.add_mc(res, c, "state graph for replay: " + name)
    paths, total, planned = edge_cover(init, adj, cx.rnd, max_paths=max_paths)
    cases = []
    for i, p in enumerate(paths):
        sched = [label_move(l) for _, l, _ in p]
        cases.append(go_case(c, "%s-p%d" % (name, i), cx.rnd, schedule=sched, sizes=sizes or SMALL_SIZES,
                             rand={"seed": cx.rnd.randrange(1 << 40), "policy": "uniform", "depth": 3}))
    results = run_driver(cx.driver, "chan", cases, cx.wd, tag=name)
    cx.absorb(results, cases)
    # trace validation uses the real MaxPolls=10 unless the graph was bounded differently
    cv = dict(c)
    v = validate_traces(cx.wd, name + "T", cv, results, invariants=getattr(cx, "trace_invariants", None))
    amplify(cx, name, c, results, v)
    cx.traces_validated += len(v["accepted"])
    cx.states += v["states"]
    for rid, step, line in v["rejected"]:
        cx.nonconforming.append({"case": rid, "step": step})
    for rid, step, inv in v["inv_violations"]:
        cx.nonconforming.append({"case": rid, "step": step, "invariant": inv})
    walked = set()
    for r in results:
        w, ok = walk_events(init, adj, sig, r["events"])
        walked.update(w)
    cx.edges_total += total
    cx.edges_walked += len(walked)
    if results and len(cx.samples) < 3:
        r = results[0]
        cx.samples.append({"config": c, "schedule": r["sched"][:40], "final": r["final"]})
    return {"paths": len(paths), "edges": total, "planned": planned, "walked": len(walked),
            "accepted": len(v["accepted"]), "rejected": len(v["rejected"]), "t": round(time.time() - cx.t0, 1)}


def random_runs(cx, name, c, n, policies=("uniform", "pct", "window"), fault_prob=0.0, cancel_prob=0.0,
                sizes=None, traced=True, max_steps=800, pcancel_prob=0.0, codec=False):
    cases = []
    for i in range(n):
        pol = policies[i % len(policies)]
        rand = {"seed": cx.rnd.randrange(1 << 40), "policy": pol, "fault_prob": fault_prob,
                "cancel_prob": cancel_prob, "depth": 3, "pcancel_prob": pcancel_prob if c.get("pcancel") else 0.0}
        cases.append(go_case(c, "%s-r%d" % (name, i), cx.rnd, rand=rand, sizes=sizes, notrace=not traced,
                             max_steps=max_steps, codec=codec))
    results = run_driver(cx.driver, "chan", cases, cx.wd, tag=name)
    cx.absorb(results, cases)
    if traced:
        v = validate_traces(cx.wd, name + "T", c, [r for r in results if r.get("events")], invariants=getattr(cx, "trace_invariants", None))
        amplify(cx, name, c, results, v)
        cx.traces_validated += len(v["accepted"])
        cx.states += v["states"]
        for rid, step, line in v["rejected"]:
            cx.nonconforming.append({"case": rid, "step": step})
        for rid, step, inv in v["inv_violations"]:
            cx.nonconforming.append({"case": rid, "step": step, "invariant": inv})
    log("  random %s: %d cases, t=%.1fs" % (name, len(cases), time.time() - cx.t0))
    if results and len(cx.samples) < 4:
        r = results[-1]
        cx.samples.append({"config": c, "policy": cases[-1]["random"]["policy"], "schedule": r["sched"][:40],
                           "final": r["final"]})
    return results


# ---------------------------------------------------------------- configurations
def W(*ops):
    """op syntax: KIND[:ctx[:chunks]]"""
    out = []
    for o in ops:
        parts = o.split(":")
        kind = parts[0]
        ctx = parts[1] if len(parts) > 1 and parts[1] else "bg"
        if len(parts) > 2:
            out.append((kind, ctx, int(parts[2])))
        else:
            out.append((kind, ctx))
    return out


def check_C01(cx):
    cx.build()
    quick = cx.tier == "quick"
    inv = ["TypeOK", "C01_Prefix", "C01_NoDup", "C01_ErrNoBytes", "C01_RealTime", "C09_OneTransportWriter"]
    # exhaustive model checking: all interleavings of the writers with the sender incarnations
    mcs = [
        ("async-q1-block", cfg({"W1": W("W1", "Wv"), "W2": W("CW1")}, qsize=1, until=True)),
        ("async-q2-nonblock", cfg({"W1": W("W1", "CWv"), "W2": W("Wv")}, qsize=2, until=False)),
        ("sync", cfg({"W1": W("W1", "CWv"), "W2": W("Wv", "CW1")}, qsize=0)),
    ]
    if not quick:
        mcs += [
            ("async-q2-block-2x2", cfg({"W1": W("W1", "Wv"), "W2": W("CW1", "CWv")}, qsize=2, until=True)),
            ("async-q3-nonblock-2x2", cfg({"W1": W("W1", "W1"), "W2": W("Wv", "CW1")}, qsize=3, until=False)),
            ("async-q1-3writers", cfg({"W1": W("W1"), "W2": W("Wv"), "W3": W("CW1")}, qsize=1, until=True)),
            ("async-q2-3writers", cfg({"W1": W("W1"), "W2": W("Wv"), "W3": W("CW1")}, qsize=2, until=False)),
            ("sync-3writers", cfg({"W1": W("W1"), "W2": W("Wv"), "W3": W("CW1", "W1")}, qsize=0)),
        ]
    for name, c in mcs:
        mc_and_replay_cex(cx, "MC" + name.replace("-", ""), c, inv, what="C01 invariants, " + name)
    # conformance: every edge of small graphs replayed on the real code
    graphs = [
        ("gq1", cfg({"W1": W("W1"), "W2": W("Wv")}, qsize=1, until=True)),
        ("gq1x3", cfg({"W1": W("W1", "CW1"), "W2": W("Wv")}, qsize=1, until=True)),
        ("gsync", cfg({"W1": W("W1"), "W2": W("CWv")}, qsize=0)),
    ]
    if not quick:
        graphs += [
            ("gq1nb", cfg({"W1": W("W1", "CW1"), "W2": W("Wv")}, qsize=1, until=False)),
            ("gq2", cfg({"W1": W("W1", "Wv"), "W2": W("CW1")}, qsize=2, until=True)),
            ("gq1w3", cfg({"W1": W("W1"), "W2": W("Wv"), "W3": W("CWv")}, qsize=1, until=True)),
        ]
    for name, c in graphs:
        st = replay_graph(cx, name, c, max_paths=None if not quick else 400)
        log("  replay %s: %s" % (name, st))
    # sampled larger configurations, all payload sizes, validated against the spec
    big = [
        ("r4q2", cfg({"W1": W("W1", "Wv", "CW1"), "W2": W("Wv", "WW"), "W3": W("CW1", "CWv"), "W4": W("W1")}, qsize=2, until=True)),
        ("r3q3nb", cfg({"W1": W("W1", "Wv", "CW1"), "W2": W("Wv", "W1", "W1"), "W3": W("CWv", "CW1")}, qsize=3, until=False)),
        ("r3sync", cfg({"W1": W("W1", "Wv"), "W2": W("Wv", "CW1"), "W3": W("CWv", "WW")}, qsize=0)),
        ("r5q8", cfg({"W%d" % i: W("W1", "Wv", "CW1") for i in range(1, 6)}, qsize=8, until=True)),
        # contexts that are already done when the call is made (the select may take either ready case: whichever it
        # takes, a call that returns the context's error must not have queued its payload) and contexts that end meanwhile
        ("r4q2dead", cfg({"W1": W("CW1:dead", "W1", "CWv:dead"), "W2": W("Wv", "CW1:dead"), "W3": W("CWv:dead", "CW1:mortal"), "W4": W("W1", "CW1:dead")}, qsize=2, until=True)),
        ("r3q4nbdead", cfg({"W1": W("CW1:dead", "CWv:dead", "W1"), "W2": W("CWv:dead", "Wv"), "W3": W("CW1:dead", "CW1:dead")}, qsize=4, until=False)),
    ]
    n = 40 if quick else 400
    for name, c in big:
        random_runs(cx, name, c, n, sizes=NZ_SIZES)
        random_runs(cx, name + "z", c, n // 4, sizes=SIZES, traced=False)
    stress_runs(cx, 200 if quick else 3000)
    return finish(cx)


def stress_runs(cx, n):
    """Free-running complement (not model-based, like the pool's stress phase): writers call the entry points of one channel
    truly in parallel and overwrite their buffers after every call; every record must arrive intact, once, in its writer's
    order. Races inside one scheduler step (check-then-act on a shared field) can only show here."""
    cases = []
    for i in range(n):
        cases.append({"id": "stress%d" % i, "qsize": cx.rnd.choice([0, 1, 2, 8, 64]), "until": True, "writers": cx.rnd.choice([2, 4, 8]),
                      "ops": cx.rnd.choice([50, 200]), "max_size": cx.rnd.choice([16, 96, 1500, 5000]), "seed": cx.rnd.randrange(1, 1 << 30), "_module": "chanfree"})
    try:
        rs = run_driver(cx.driver, "chanfree", cases, cx.wd, tag="stress", shards=4)
    except Inconclusive as e:
        if cx.fails:
            # the model-based phases have already produced their verdict on real executions: a stress phase that
            # cannot finish on such a tree does not take it back
            cx.notes.append("stress phase did not finish: %s" % str(e)[:200])
            return
        raise
    cx.absorb(rs, cases)
    cx.extra_cov["free_running_stress_records"] = cx.extra_cov.get("free_running_stress_records", 0) + sum(r.get("records", 0) for r in rs)
    log("  stress: %d cases, %d records, t=%.1fs" % (len(rs), sum(r.get("records", 0) for r in rs), time.time() - cx.t0))


def prove_inductive(wd, module, init, indinit, indinv, timeout=600):
    """Init => IndInv and IndInv /\\ Next => IndInv' with Apalache (unbounded integers). A failure to prove is
    a defect of the specification work, never a verdict about the code: Inconclusive."""
    shutil.copy(os.path.join(SPEC, module + ".tla"), wd)
    out = {}
    for label, args in (("base", ["--init=" + init, "--inv=" + indinv, "--length=0"]),
                        ("step", ["--init=" + indinit, "--inv=" + indinv, "--length=1"])):
        t0 = time.time()
        try:
            p = subprocess.run(["apalache-mc", "check", "--out-dir=" + os.path.join(wd, "_apalache-out")] + args + [module + ".tla"],
                               cwd=wd, stdout=subprocess.PIPE, stderr=subprocess.STDOUT, timeout=timeout, text=True)
        except (subprocess.TimeoutExpired, OSError) as e:
            raise Inconclusive("Apalache did not run to completion (%s): %s" % (label, e))
        if "EXITCODE: OK" not in p.stdout:
            raise Inconclusive("Apalache could not establish the %s case of %s!%s:\n%s" % (label, module, indinv, p.stdout[-600:]))
        out[label] = "proved in %.1fs" % (time.time() - t0)
    shutil.rmtree(os.path.join(wd, "_apalache-out"), ignore_errors=True)
    return out


def prove_tlaps(wd, module, timeout=900):
    """Machine-checked proof (TLAPS) of the theorems in spec/<module>.tla. The back-end provers run under their own
    time-outs, which a loaded machine can exceed: a failed attempt is repeated with stretched time-outs. The result is
    a second opinion next to the Apalache run on the same claim, so a proof that still does not go through is recorded
    in the evidence instead of making the whole check inconclusive."""
    for fn in os.listdir(SPEC):
        if fn.endswith(".tla"):
            shutil.copy(os.path.join(SPEC, fn), wd)
    last = ""
    for attempt, extra in enumerate(([], ["--stretch", "5"], ["--stretch", "20"])):
        t0 = time.time()
        shutil.rmtree(os.path.join(wd, ".tlacache"), ignore_errors=True)
        try:
            p = subprocess.run(["tlapm", "--threads", "8"] + extra + [module + ".tla"], cwd=wd, stdout=subprocess.PIPE, stderr=subprocess.STDOUT,
                               timeout=timeout, text=True)
        except (subprocess.TimeoutExpired, OSError) as e:
            last = "tlapm did not run to completion: %s" % e
            continue
        m = re.search(r"All (\d+) obligations? proved", p.stdout)
        if m:
            shutil.rmtree(os.path.join(wd, ".tlacache"), ignore_errors=True)
            return "%s obligations proved in %.1fs%s" % (m.group(1), time.time() - t0, " (attempt %d)" % (attempt + 1) if attempt else "")
        last = p.stdout[-400:]
    shutil.rmtree(os.path.join(wd, ".tlacache"), ignore_errors=True)
    return "NOT PROVED in three attempts (back-end time-outs?): " + " ".join(last.split())[-300:]


def check_C02(cx):
    cx.build()
    quick = cx.tier == "quick"
    inv = ["TypeOK", "C02_Responsible", "C02_Quiescent"]
    mcs = [
        ("q1", cfg({"W1": W("W1", "Wv"), "W2": W("CW1")}, qsize=1, until=True)),
        ("q2nb", cfg({"W1": W("W1", "W1"), "W2": W("Wv")}, qsize=2, until=False)),
    ]
    live = [("live-q1", cfg({"W1": W("W1"), "W2": W("Wv")}, qsize=1, until=True))]
    if not quick:
        mcs += [
            ("q2-2x2", cfg({"W1": W("W1", "Wv"), "W2": W("CW1", "CWv")}, qsize=2, until=True)),
            ("q1-3w", cfg({"W1": W("W1"), "W2": W("Wv"), "W3": W("CW1")}, qsize=1, until=True)),
            ("q3-3w", cfg({"W1": W("W1"), "W2": W("Wv"), "W3": W("CW1")}, qsize=3, until=False)),
        ]
        live += [("live-q2", cfg({"W1": W("W1", "Wv"), "W2": W("CW1")}, qsize=2, until=True)),
                 ("live-q1nb", cfg({"W1": W("W1", "Wv"), "W2": W("CW1")}, qsize=1, until=False))]
    # unbounded part: the counting abstraction Ownership.tla (any number of writers, any queue length) has the
    # C02 safety core as an inductive invariant (Apalache); the bounded Channel configurations below are checked
    # by TLC to refine it step by step (ChannelOwn.tla), and Channel itself is bound to the code by the replays
    cx.trace_invariants = TRACE_INVARIANTS + ["OwnIndInv"]   # every recorded real execution also stays inside the proved invariant
    ap = prove_inductive(cx.wd, "Ownership", "Init", "IndInit", "IndInv")
    cx.extra_cov["apalache_inductive_invariant"] = ap
    log("  Apalache: Ownership!IndInv inductive (unbounded): %s" % ap)
    tp = prove_tlaps(cx.wd, "OwnershipProof")
    cx.extra_cov["tlaps_proof_Spec_implies_always_IndInv"] = tp
    log("  TLAPS: Ownership!Spec => []IndInv: %s" % tp)
    for name, c in mcs:
        mc_and_replay_cex(cx, "MC" + name.replace("-", ""), c, inv + ["OwnIndInv"], properties=["RefinesOwnership"],
                          base="ChannelOwn", what="C02 safety core + refinement of Ownership, " + name)
    # with transport faults the failing sender hands its responsibility to Close (no refinement mapping for that path)
    for name, c in [("q1-faults", cfg({"W1": W("W1", "Wv"), "W2": W("CW1")}, qsize=1, until=True, maxfaults=1))] + \
                   ([] if quick else [("q2nb-closer-faults", cfg({"W1": W("W1"), "W2": W("Wv")}, {"C1": "e1"}, qsize=2, until=False, maxfaults=2))]):
        mc_and_replay_cex(cx, "MC" + name.replace("-", ""), c, ["TypeOK", "C02_Responsible"], what="C02 safety core under transport faults, " + name)
    for name, c in live:
        mc_and_replay_cex(cx, "MC" + name.replace("-", ""), c, ["TypeOK"], properties=["C02_Live"], spec="FairSpec",
                          what="C02 liveness under weak fairness, " + name)
    graphs = [("gq1", cfg({"W1": W("W1"), "W2": W("Wv")}, qsize=1, until=True)),
              ("gq2nb", cfg({"W1": W("W1"), "W2": W("CW1")}, qsize=2, until=False)),
              # a writer held inside the evaluation of its select (gated context) while the sender drains and leaves
              ("gq1gated", cfg({"W1": W("W1"), "W2": W("CW1:gated")}, qsize=1, until=True))]
    # three payloads and a second sender incarnation (a sender started for a packet that was already sent): covered
    # completely in the thorough tier, sampled in the quick one
    graphs += [("gq1b", cfg({"W1": W("W1", "CW1"), "W2": W("Wv")}, qsize=1, until=True))]
    if not quick:
        graphs += [("gq2", cfg({"W1": W("W1", "Wv"), "W2": W("CW1")}, qsize=2, until=True))]
    for name, c in graphs:
        st = replay_graph(cx, name, c, max_paths=None if not quick else (700 if name == "gq1b" else 400))
        log("  replay %s: %s" % (name, st))
    big = [
        ("r4q1", cfg({"W1": W("W1", "Wv"), "W2": W("Wv", "WW"), "W3": W("CW1:gated", "CWv:gated"), "W4": W("W1")}, qsize=1, until=True)),
        ("r4q2", cfg({"W1": W("W1", "Wv", "CW1"), "W2": W("Wv", "WW"), "W3": W("CW1", "CWv"), "W4": W("W1")}, qsize=2, until=True)),
        ("r6q4", cfg({"W%d" % i: W("W1", "Wv") for i in range(1, 7)}, qsize=4, until=True)),
    ]
    n = 40 if quick else 400
    for name, c in big:
        random_runs(cx, name, c, n, policies=("window", "pct", "uniform"), sizes=NZ_SIZES)
    stress_runs(cx, 200 if quick else 3000)
    return finish(cx)


def check_C06(cx):
    cx.build()
    quick = cx.tier == "quick"
    inv = ["TypeOK", "C06_Graceful", "C06_NoMidBatch", "C05_Once"]
    mcs = [
        ("q1-block", cfg({"W1": W("W1"), "W2": W("Wv")}, {"C1": "e1"}, qsize=1, until=True)),
        ("q2-block", cfg({"W1": W("W1", "CW1"), "W2": W("Wv")}, {"C1": "e1"}, qsize=2, until=True)),
        ("q2-bounded", cfg({"W1": W("W1"), "W2": W("Wv")}, {"C1": "e1"}, qsize=2, until=False)),
    ]
    live = [("live-q1", cfg({"W1": W("W1"), "W2": W("Wv")}, {"C1": "e1"}, qsize=1, until=True))]
    if not quick:
        mcs += [
            ("q2-2x2", cfg({"W1": W("W1", "Wv"), "W2": W("CW1", "CWv")}, {"C1": "e1"}, qsize=2, until=True)),
            ("q1-2closers", cfg({"W1": W("W1"), "W2": W("Wv")}, {"C1": "e1", "C2": "nil"}, qsize=1, until=True)),
            ("q3-bounded", cfg({"W1": W("W1", "W1"), "W2": W("Wv")}, {"C1": "e1"}, qsize=3, until=False)),
            ("q2-faults", cfg({"W1": W("W1", "CW1"), "W2": W("Wv")}, {"C1": "e1"}, qsize=2, until=True, maxfaults=1)),
        ]
        live += [("live-q2-faults", cfg({"W1": W("W1"), "W2": W("Wv")}, {"C1": "e1"}, qsize=2, until=True, maxfaults=1)),
                 ("live-bounded", cfg({"W1": W("W1"), "W2": W("Wv")}, {"C1": "e1"}, qsize=1, until=False))]
    for name, c in mcs:
        mc_and_replay_cex(cx, "MC" + name.replace("-", ""), c, inv, what="C06 invariants, " + name)
    for name, c in live:
        mc_and_replay_cex(cx, "MC" + name.replace("-", ""), c, ["TypeOK"], properties=["C06_CloseTerminates"],
                          spec="FairSpec", what="Close terminates under weak fairness, " + name)
    # regression self-test: the specification of the unrepaired Close must still yield the
    # release-window counterexample, and that schedule is replayed on the current tree
    if TREE["FixDrain"]:
        c0 = cfg({"W1": W("W1"), "W2": W("Wv")}, {"C1": "e1"}, qsize=1, until=True, fixdrain=False)
        res = model_check(cx.wd, "MCunfixed", c0, ["C06_Graceful"])
        cx.add_mc(res, c0, "self-test: unrepaired Close (FixDrain=FALSE) must violate C06_Graceful")
        cx.selftests["unfixed_spec_violates_C06_Graceful"] = bool(res["violated"])
        if not res["violated"]:
            raise Inconclusive("self-test failed: the unrepaired specification no longer violates C06_Graceful (vacuous invariant?)")
        sched = schedule_of_trace(res["trace"])
        c1 = cfg({"W1": W("W1"), "W2": W("Wv")}, {"C1": "e1"}, qsize=1, until=True)
        cases = [go_case(c1, "regress-%d" % i, cx.rnd, schedule=sched, sizes=SMALL_SIZES) for i in range(3)]
        results = run_driver(cx.driver, "chan", cases, cx.wd, tag="regress")
        cx.absorb(results, cases)
        cx.selftests["old_counterexample_schedule"] = sched
    graphs = [("gq1", cfg({"W1": W("W1")}, {"C1": "e1"}, qsize=1, until=True))]
    if not quick:
        graphs += [("gq1w2", cfg({"W1": W("W1"), "W2": W("Wv")}, {"C1": "e1"}, qsize=1, until=True)),
                   ("gq2nb", cfg({"W1": W("W1"), "W2": W("CW1")}, {"C1": "nil"}, qsize=2, until=False))]
    for name, c in graphs:
        # (a bounded-wait Close polls with real 100 ms sleeps: the graph of that configuration is sampled, not covered)
        st = replay_graph(cx, name, c, max_paths=300 if quick else (10000 if name == "gq2nb" else None))
        log("  replay %s: %s" % (name, st))
    # (the error given to Close is whatever the application got hold of: the read loop's io.EOF after a half-close, a
    # connection reset, a wrapped sentinel ... graceful close does not depend on it)
    big = [
        ("r3q2c1", cfg({"W1": W("W1", "Wv"), "W2": W("Wv", "WW"), "W3": W("CW1")}, {"C1": "eof"}, qsize=2, until=True)),
        ("r4q1c2", cfg({"W1": W("W1", "Wv"), "W2": W("Wv"), "W3": W("CW1"), "W4": W("W1")}, {"C1": "neterr", "C2": "e2"}, qsize=1, until=True)),
        ("r3q3nbc1", cfg({"W1": W("W1", "Wv"), "W2": W("Wv", "W1"), "W3": W("CW1")}, {"C1": "nil"}, qsize=3, until=False)),
        ("r3q2c1u", cfg({"W1": W("W1", "Wv"), "W2": W("Wv", "WW"), "W3": W("CW1")}, {"C1": "ueof"}, qsize=2, until=True)),
        ("r3q1c1n", cfg({"W1": W("W1", "Wv"), "W2": W("Wv", "W1")}, {"C1": "netclosed"}, qsize=1, until=False)),
    ]
    n = 30 if quick else 300
    for name, c in big:
        random_runs(cx, name, c, n, policies=("window", "pct", "uniform"), sizes=NZ_SIZES)
    # Close finds a backlog larger than one batch (writers first, senders last), queue sizes 3..8
    for name, c in [("d5q4", cfg({"W%d" % i: W("W1") for i in range(1, 6)}, {"C1": "e1"}, qsize=4, until=True)),
                    ("d6q3nb", cfg({"W%d" % i: W("Wv") for i in range(1, 7)}, {"C1": "nil"}, qsize=3, until=False)),
                    ("d4q8", cfg({"W%d" % i: W("W1", "CW1", "Wv") for i in range(1, 5)}, {"C1": "e1"}, qsize=8, until=True))]:
        random_runs(cx, name, c, 24 if quick else 200, policies=("drain",), sizes=NZ_SIZES)
    # a bounded-wait Close that runs out of patience with a stalled sender: it may give up, but not before the
    # documented grace period (10 polls of 100 ms) is over - measured on the real clock, one-sided
    for name, c in [("stallnb", cfg({"W1": W("W1", "Wv"), "W2": W("Wv")}, {"C1": "e1"}, qsize=2, until=False)),
                    ("stallnb1", cfg({"W1": W("W1"), "W2": W("CW1")}, {"C1": "nil"}, qsize=1, until=False))]:
        random_runs(cx, name, c, 8 if quick else 48, policies=("stall",), sizes=NZ_SIZES)
    # graceful close when the Close comes from a handler inside the read loop
    hc = cfg({"W1": W("W1"), "W2": W("Wv")}, {}, qsize=1, until=True, serve="full", reads=1, readcloses=[1])
    mc_and_replay_cex(cx, "MChandlerclose", hc, inv, what="C06 invariants, Close issued by a handler inside the read loop")
    random_runs(cx, "hc3q2", cfg({"W1": W("W1", "Wv"), "W2": W("Wv", "WW"), "W3": W("CW1")}, {}, qsize=2, until=True, serve="full", reads=2, readcloses=[2]),
                n, policies=("window", "drain", "uniform"), sizes=NZ_SIZES)
    # the parent context (bootstrap shutdown) is cancelled around Close: Close must still wait and drain
    pc = cfg({"W1": W("W1"), "W2": W("Wv")}, {"C1": "e1"}, qsize=1, until=True, pcancel=True)
    mc_and_replay_cex(cx, "MCpcancel", pc, inv, what="C06 invariants with parent-context cancellation")
    random_runs(cx, "pc3q2", cfg({"W1": W("W1", "Wv"), "W2": W("Wv", "WW"), "W3": W("CW1")}, {"C1": "e1"}, qsize=2, until=True, pcancel=True),
                n, policies=("window", "drain", "uniform"), sizes=NZ_SIZES, pcancel_prob=0.08)
    return finish(cx)


KINDS = ["M", "W1", "Wv", "CW1", "CWv", "WW", "RF::2", "MR::2", "MT::2"]


def check_C11(cx):
    cx.build()
    quick = cx.tier == "quick"
    inv = ["TypeOK", "C11_FailAfterClose", "C01_ErrNoBytes", "C05_Once"]
    mcs = [
        ("async-nil", cfg({"W1": W("W1", "CW1"), "W2": W("Wv")}, {"C1": "nil"}, qsize=1, until=True)),
        ("async-e1-m", cfg({"W1": W("M", "W1", "CW1")}, {"C1": "e1"}, qsize=1, until=True)),
        ("sync-nil", cfg({"W1": W("M", "W1", "CW1"), "W2": W("Wv", "CWv")}, {"C1": "nil"}, qsize=0)),
        ("sync-e1", cfg({"W1": W("M", "W1", "CW1"), "W2": W("Wv", "CWv")}, {"C1": "e1"}, qsize=0)),
        ("async-2closers", cfg({"W1": W("M", "CW1")}, {"C1": "nil", "C2": "e2"}, qsize=1, until=True)),
        ("async-readfrom", cfg({"W1": W("RF::2", "RF::1")}, {"C1": "nil"}, qsize=1, until=True)),
        ("sync-readfrom", cfg({"W1": W("RF::2", "MR::2")}, {"C1": "e1"}, qsize=0)),
    ]
    if not quick:
        mcs += [
            ("async-q2-3ops", cfg({"W1": W("M", "W1"), "W2": W("CWv")}, {"C1": "nil"}, qsize=2, until=True)),
            ("async-nb", cfg({"W1": W("W1", "CW1"), "W2": W("M")}, {"C1": "nil"}, qsize=1, until=False)),
            ("async-deadctx", cfg({"W1": W("CW1:dead", "CWv:dead"), "W2": W("W1")}, {"C1": "nil"}, qsize=1, until=True)),
            ("sync-2closers", cfg({"W1": W("M", "W1"), "W2": W("CW1", "Wv")}, {"C1": "nil", "C2": "e2"}, qsize=0)),
            ("async-faults", cfg({"W1": W("W1", "CW1")}, {"C1": "nil"}, qsize=1, until=True, maxfaults=1)),
            ("async-wv-e1", cfg({"W1": W("Wv", "CWv"), "W2": W("M")}, {"C1": "e1"}, qsize=1, until=True)),
        ]
    for name, c in mcs:
        mc_and_replay_cex(cx, "MC" + name.replace("-", ""), c, inv, what="C11 invariants, " + name)
    if TREE["FixClosed"]:
        c0 = cfg({"W1": W("W1", "CW1")}, {"C1": "nil"}, qsize=1, until=True, fixclosed=False)
        res = model_check(cx.wd, "MCunfixed", c0, ["C11_FailAfterClose"])
        cx.add_mc(res, c0, "self-test: entry points without the closed test (FixClosed=FALSE) must violate C11_FailAfterClose")
        cx.selftests["unfixed_spec_violates_C11"] = bool(res["violated"])
        if not res["violated"]:
            raise Inconclusive("self-test failed: the unrepaired specification no longer violates C11_FailAfterClose")
        sched = schedule_of_trace(res["trace"])
        c1 = cfg({"W1": W("W1", "CW1")}, {"C1": "nil"}, qsize=1, until=True)
        cases = [go_case(c1, "regress-%d" % i, cx.rnd, schedule=sched, sizes=SMALL_SIZES) for i in range(8)]
        cx.absorb(run_driver(cx.driver, "chan", cases, cx.wd, tag="regress"), cases)
    # every entry point after a completed Close, both select outcomes sampled many times
    for arg in ("nil", "e1"):
        for q, until in ((2, True), (1, False), (0, True)):
            c = cfg({"W1": W(*KINDS)}, {"C1": arg}, qsize=q, until=until)
            sched = [["step", "C1"]] * 12
            cases = [go_case(c, "after-%s-q%d-%d" % (arg, q, i), cx.rnd, schedule=sched, sizes=SMALL_SIZES) for i in range(16 if quick else 64)]
            # ... and with empty payloads among them (an empty write on a closed channel fails like any other)
            cases += [go_case(c, "after0-%s-q%d-%d" % (arg, q, i), cx.rnd, schedule=sched, sizes=[7, 0, 0]) for i in range(6 if quick else 24)]
            results = run_driver(cx.driver, "chan", cases, cx.wd, tag="after")
            cx.absorb(results, cases)
            v = validate_traces(cx.wd, "afterT", c, results)
            cx.traces_validated += len(v["accepted"])
            cx.states += v["states"]
            cx.nonconforming += [{"case": r, "step": st} for r, st, _ in v["rejected"]]
    graphs = [("gq1", cfg({"W1": W("W1", "CW1")}, {"C1": "nil"}, qsize=1, until=True))]
    if not quick:
        graphs += [("gsync", cfg({"W1": W("M", "W1"), "W2": W("CWv")}, {"C1": "nil"}, qsize=0)),
                   ("gq1m", cfg({"W1": W("M", "Wv")}, {"C1": "e1"}, qsize=1, until=False))]
    for name, c in graphs:
        st = replay_graph(cx, name, c, max_paths=300 if quick else None)
        log("  replay %s: %s" % (name, st))
    big = [
        ("r3rf", cfg({"W1": W("RF::3", "RF::2"), "W2": W("MR::2", "M"), "W3": W("MT::2")}, {"C1": "nil"}, qsize=2, until=True)),
        ("r3rfsync", cfg({"W1": W("RF::3", "RF::2"), "W2": W("MR::2", "M"), "W3": W("MT::2")}, {"C1": "e1"}, qsize=0)),
        ("r3q2", cfg({"W1": W("M", "W1", "CW1"), "W2": W("Wv", "CWv", "WW"), "W3": W("CW1", "M")}, {"C1": "nil", "C2": "e2"}, qsize=2, until=True)),
        ("r3sync", cfg({"W1": W("M", "W1", "CW1"), "W2": W("Wv", "CWv", "WW"), "W3": W("CW1", "M")}, {"C1": "nil"}, qsize=0)),
    ]
    n = 30 if quick else 300
    for name, c in big:
        random_runs(cx, name, c, n, sizes=NZ_SIZES)
    return finish(cx)


def check_C18(cx):
    cx.build()
    quick = cx.tier == "quick"
    inv = ["TypeOK", "C18_NeverBlocks", "C18_Bound", "C18_CancelNoBytes", "C01_ErrNoBytes"]
    props = ["C18_NoSpaceOnlyWhenFull"]
    mcs = [
        ("nb-q1", cfg({"W1": W("W1", "CW1"), "W2": W("Wv"), "W3": W("CWv:dead")}, qsize=1, until=False)),
        ("b-q1-mortal", cfg({"W1": W("CW1:mortal"), "W2": W("W1"), "W3": W("CWv:mortal")}, qsize=1, until=True)),
        ("b-q1-close", cfg({"W1": W("W1"), "W2": W("Wv"), "W3": W("CW1")}, {"C1": "e1"}, qsize=1, until=True)),
        # writers with contexts that never end, parked on the full queue when the channel's own (parent) context is cancelled
        ("b-q1-pcancel", cfg({"W1": W("W1"), "W2": W("Wv"), "W3": W("W1")}, qsize=1, until=True, pcancel=True)),
    ]
    if not quick:
        mcs += [
            ("b-q1-close-faults", cfg({"W1": W("W1"), "W2": W("Wv"), "W3": W("W1")}, {"C1": "e1"}, qsize=1, until=True, maxfaults=1)),
            ("nb-q2", cfg({"W1": W("W1", "CW1"), "W2": W("Wv"), "W3": W("CWv:dead")}, qsize=2, until=False)),
            ("b-q2-mortal", cfg({"W1": W("CW1:mortal", "W1"), "W2": W("W1"), "W3": W("CWv:mortal")}, qsize=2, until=True)),
            ("b-q1-close-nil", cfg({"W1": W("W1"), "W2": W("Wv"), "W3": W("CW1:mortal")}, {"C1": "nil"}, qsize=1, until=True)),
            ("nb-q3-4w", cfg({"W1": W("W1"), "W2": W("Wv"), "W3": W("CW1"), "W4": W("CWv")}, qsize=3, until=False)),
        ]
    for name, c in mcs:
        mc_and_replay_cex(cx, "MC" + name.replace("-", ""), c, inv, properties=props, what="C18 invariants, " + name)
    # liveness: a writer blocked on a full queue eventually returns (space, its context, or close)
    live = cfg({"W1": W("W1"), "W2": W("Wv"), "W3": W("CW1")}, qsize=1, until=True)
    write_live = ["C18_WaitEnds"]
    mc_and_replay_cex(cx, "MClive", live, ["TypeOK"], properties=write_live, spec="FairSpec", what="C18 blocked writers eventually return")
    graphs = [("gnb", cfg({"W1": W("W1"), "W2": W("CW1:far"), "W3": W("CWv:far")}, qsize=1, until=False)),
              ("gbm", cfg({"W1": W("W1"), "W2": W("CW1:mortal")}, qsize=1, until=True)),
              ("gbp", cfg({"W1": W("W1"), "W2": W("Wv")}, qsize=1, until=True, pcancel=True))]
    if not quick:
        graphs += [("gb", cfg({"W1": W("W1"), "W2": W("CW1:mortal"), "W3": W("Wv")}, qsize=1, until=True)),
                   ("gbc", cfg({"W1": W("W1"), "W2": W("CW1")}, {"C1": "e1"}, qsize=1, until=True))]
    for name, c in graphs:
        st = replay_graph(cx, name, c, max_paths=300 if quick else None)
        log("  replay %s: %s" % (name, st))
    big = [
        ("r5q1nb", cfg({"W%d" % i: W("W1", "CW1:far", "CWv:far") for i in range(1, 6)}, qsize=1, until=False)),
        ("r5q2b", cfg({"W%d" % i: W("W1", "CW1:mortal", "Wv") for i in range(1, 6)}, qsize=2, until=True)),
        ("r4q1g", cfg({"W%d" % i: W("CW1:gated", "CWv:gated") for i in range(1, 5)}, qsize=1, until=True)),
        ("r4q1bc", cfg({"W%d" % i: W("W1", "CWv:mortal") for i in range(1, 5)}, {"C1": "e1"}, qsize=1, until=True)),
        ("r4q3nb", cfg({"W%d" % i: W("Wv", "CW1:dead", "W1") for i in range(1, 5)}, qsize=3, until=False)),
    ]
    n = 30 if quick else 300
    for name, c in big:
        random_runs(cx, name, c, n, policies=("window", "uniform", "pct", "drain"), cancel_prob=0.05, sizes=NZ_SIZES)
    # the channel ends under parked writers without draining for them: parent context cancelled, or Close whose
    # own transport calls fail
    ending = [
        ("r4q1bp", cfg({"W%d" % i: W("W1", "Wv") for i in range(1, 5)}, qsize=1, until=True, pcancel=True),
         dict(pcancel_prob=0.08, policies=("window", "uniform", "stall"))),
        # (no stalled sender here: Close polls for the sender with real sleeps)
        ("r4q1bcf", cfg({"W%d" % i: W("W1", "Wv") for i in range(1, 5)}, {"C1": "e1"}, qsize=1, until=True, maxfaults=2),
         dict(fault_prob=0.25, policies=("window", "uniform"))),
    ]
    for name, c, kw in ending:
        random_runs(cx, name, c, n, sizes=NZ_SIZES, **kw)
        log("  random %s done, t=%.1fs" % (name, time.time() - cx.t0))
    return finish(cx)


def check_C05(cx):
    cx.build()
    quick = cx.tier == "quick"
    inv = ["TypeOK", "C05_Once", "C05_InactiveErr", "C05_ActiveFirst", "C05_CloseRetImpliesClosed",
           "C05_WinnerDone", "C05_ReadsSequential"]
    mcs = [
        ("full-2closers", cfg({"W1": W("W1")}, {"C1": "e1", "C2": "e2"}, qsize=1, until=True, serve="full", reads=1)),
        ("full-readfail", cfg({"W1": W("W1")}, {"C1": "e1"}, qsize=1, until=True, serve="full", reads=1, maxfaults=1)),
        ("sync-3closers", cfg({"W1": W("W1")}, {"C1": "e1", "C2": "nil", "C3": "e3"}, qsize=0, serve="full", reads=1)),
    ]
    if not quick:
        mcs += [
            ("full-3closers-async", cfg({"W1": W("W1")}, {"C1": "e1", "C2": "nil", "C3": "e3"}, qsize=1, until=True, serve="full", reads=1)),
            ("full-faults2", cfg({"W1": W("W1", "Wv")}, {"C1": "e1"}, qsize=2, until=True, serve="full", reads=2, maxfaults=2)),
            ("sync-faults", cfg({"W1": W("W1", "CW1")}, {"C1": "e1", "C2": "e2"}, qsize=0, serve="full", reads=1, maxfaults=1)),
            ("bounded-faults", cfg({"W1": W("W1"), "W2": W("Wv")}, {"C1": "e1"}, qsize=1, until=False, serve="full", reads=0, maxfaults=1)),
        ]
    for name, c in mcs:
        mc_and_replay_cex(cx, "MC" + name.replace("-", ""), c, inv, what="C05 invariants, " + name)
    lc = cfg({}, {"C1": "e1"}, qsize=1, until=True, serve="full", reads=1, maxfaults=1)
    mc_and_replay_cex(cx, "MClive", lc, ["TypeOK"], properties=["C05_ReadLoopEnds"], spec="FairSpec",
                      what="read loop terminates once reads fail / channel closes")
    graphs = [("gfull", cfg({}, {"C1": "e1", "C2": "nil"}, qsize=1, until=True, serve="full", reads=1, maxfaults=1)),
              # the Close that takes effect is the failing sender's own (no other Close call around)
              ("gwfault", cfg({"W1": W("W1"), "W2": W("Wv")}, {}, qsize=1, until=True, maxfaults=1))]
    if not quick:
        graphs += [("gfullw", cfg({"W1": W("W1")}, {"C1": "e1"}, qsize=1, until=True, serve="full", reads=1, maxfaults=1)),
                   ("gsync", cfg({"W1": W("W1")}, {"C1": "e1", "C2": "e2"}, qsize=0, serve="full", reads=1, maxfaults=1))]
    for name, c in graphs:
        st = replay_graph(cx, name, c, max_paths=300 if quick else None)
        log("  replay %s: %s" % (name, st))
    big = [
        ("r3c3", cfg({"W1": W("W1", "Wv"), "W2": W("CW1"), "W3": W("WW")}, {"C1": "e1", "C2": "nil", "C3": "e3"}, qsize=2, until=True, serve="full", reads=2, maxfaults=2)),
        ("r2c2sync", cfg({"W1": W("W1", "Wv"), "W2": W("CW1")}, {"C1": "e1", "C2": "e2"}, qsize=0, serve="full", reads=2, maxfaults=2)),
        ("r2c2nb", cfg({"W1": W("W1", "Wv"), "W2": W("CW1")}, {"C1": "e1", "C2": "e2"}, qsize=1, until=False, serve="full", reads=1, maxfaults=1)),
    ]
    n = 30 if quick else 300
    for name, c in big:
        random_runs(cx, name, c, n, fault_prob=0.15, sizes=NZ_SIZES)
    # Close issued by a handler from inside the read loop, racing with user Close calls
    hc = cfg({"W1": W("W1")}, {"C1": "e1"}, qsize=1, until=True, serve="full", reads=2, readcloses=[1])
    mc_and_replay_cex(cx, "MChandlerclose", hc, inv, what="C05 invariants, Close from a handler inside the read loop vs a user Close")
    st = replay_graph(cx, "ghc", cfg({}, {"C1": "e1"}, qsize=1, until=True, serve="full", reads=2, readcloses=[2]), max_paths=200 if quick else None)
    log("  replay ghc: %s" % st)
    random_runs(cx, "hc2", cfg({"W1": W("W1", "Wv"), "W2": W("CW1")}, {"C1": "e1", "C2": "nil"}, qsize=2, until=True, serve="full", reads=3, readcloses=[2], maxfaults=1),
                n, fault_prob=0.05, sizes=NZ_SIZES)
    # parent context cancelled without any Close call: the read loop closes the channel itself
    pinv = inv + ["C05_LoopExitClosed"]
    pc = cfg({"W1": W("W1")}, {"C1": "e1"}, qsize=1, until=True, serve="full", reads=1, pcancel=True)
    mc_and_replay_cex(cx, "MCpcancel", pc, pinv, what="C05 invariants with parent-context cancellation")
    pc0 = cfg({"W1": W("W1")}, {}, qsize=1, until=True, serve="full", reads=1, pcancel=True)
    mc_and_replay_cex(cx, "MCpcancel0", pc0, pinv, what="C05 invariants, parent cancellation and no Close call")
    st = replay_graph(cx, "gpc", pc0, max_paths=300 if quick else None)
    log("  replay gpc: %s" % st)
    random_runs(cx, "pc2c2", cfg({"W1": W("W1", "Wv"), "W2": W("CW1")}, {"C1": "e1", "C2": "e2"}, qsize=2, until=True, serve="full", reads=2, maxfaults=1, pcancel=True),
                n, fault_prob=0.1, sizes=NZ_SIZES, pcancel_prob=0.1)
    random_runs(cx, "pc2c0", cfg({"W1": W("W1", "Wv"), "W2": W("CW1")}, {}, qsize=0, serve="full", reads=2, pcancel=True),
                n, sizes=NZ_SIZES, pcancel_prob=0.15)
    # a bounded-wait Close that gives up on a stalled sender (10 real polls): the late sender failure
    # must not disturb the close sequence of the call that took effect
    # a peer that does not read (transport writes return only once the transport is closed): Close must still go
    # through on synchronous channels and, after its grace period, on bounded-wait channels
    for name, c in [("wedgesync", cfg({"W1": W("W1", "Wv"), "W2": W("Wv", "M")}, {"C1": "e1"}, qsize=0)),
                    ("wedgesync2", cfg({"W1": W("W1"), "W2": W("MV")}, {"C1": "nil", "C2": "e2"}, qsize=0, serve="full", reads=1)),
                    ("wedgenb", cfg({"W1": W("W1"), "W2": W("Wv")}, {"C1": "e1"}, qsize=1, until=False))]:
        random_runs(cx, name, c, (24 if name != "wedgenb" else 8) if quick else 96, policies=("wedge",), sizes=NZ_SIZES)
    for name, c in [("stall1", cfg({"W1": W("W1", "Wv")}, {"C1": "e1"}, qsize=1, until=False, serve="full", reads=1)),
                    ("stall2", cfg({"W1": W("W1"), "W2": W("CW1")}, {"C1": "e1", "C2": "nil"}, qsize=2, until=False))]:
        random_runs(cx, name, c, 16 if quick else 64, policies=("stall",), sizes=NZ_SIZES)
    return finish(cx)


def check_C09(cx):
    cx.build()
    quick = cx.tier == "quick"
    inv = ["TypeOK", "C09_Contiguous", "C09_OneTransportWriter", "C01_NoDup"]
    # single-write carriers ([]byte, [][]byte, *bytes.Buffer through Channel.Write): must stay contiguous
    single = [
        ("single-async", cfg({"W1": W("M", "MV"), "W2": W("MB")}, qsize=1, until=True)),
        ("single-sync", cfg({"W1": W("M", "MV"), "W2": W("MB", "M")}, qsize=0)),
    ]
    if not quick:
        single += [("single-async-q2", cfg({"W1": W("M", "MV"), "W2": W("MB"), "W3": W("M")}, qsize=2, until=False))]
    for name, c in single:
        mc_and_replay_cex(cx, "MC" + name.replace("-", ""), c, inv, what="C09 contiguity, single-write carriers, " + name)
    # multi-write carriers (io.Reader delivering several chunks, multi-write io.WriterTo, ReadFrom): the
    # specification models the code as it is - one message = several queue slots / lock acquisitions -
    # so TLC yields the interleaving; it is replayed on the real code and reported per carrier kind
    multi = [
        ("reader-async", cfg({"W1": W("MR::2"), "W2": W("M")}, qsize=2, until=True)),
        ("writerto-sync", cfg({"W1": W("MT::2"), "W2": W("M")}, qsize=0)),
        ("readfrom-async", cfg({"W1": W("RF::2"), "W2": W("W1")}, qsize=1, until=True)),
        ("reader-sync", cfg({"W1": W("MR::2"), "W2": W("MV")}, qsize=0)),
    ]
    for name, c in multi:
        res, sched, reproduced = mc_and_replay_cex(cx, "MC" + name.replace("-", ""), c, inv, what="C09 contiguity, multi-write carrier, " + name)
        cx.selftests["multi_write_counterexample_" + name] = {"tlc_violated": res["violated"], "reproduced_on_real_code": reproduced}
        if not res["violated"]:
            cx.notes.append("the specification no longer yields an interleaving for %s" % name)
    graphs = [("gsingle", cfg({"W1": W("M"), "W2": W("MV")}, qsize=1, until=True)),
              ("gmulti", cfg({"W1": W("MR::2"), "W2": W("M")}, qsize=1, until=True))]
    if not quick:
        graphs += [("gsyncmulti", cfg({"W1": W("MT::2"), "W2": W("MB"), "W3": W("M")}, qsize=0))]
    for name, c in graphs:
        st = replay_graph(cx, name, c, max_paths=300 if quick else None)
        log("  replay %s: %s" % (name, st))
    n = 30 if quick else 300
    big = [
        ("r4single", cfg({"W1": W("M", "MV", "MB"), "W2": W("MV", "M"), "W3": W("MB", "MB"), "W4": W("M")}, qsize=2, until=True)),
        ("r3singlesync", cfg({"W1": W("M", "MV", "MB"), "W2": W("MV", "M"), "W3": W("MB", "MB")}, qsize=0)),
        ("r3multi", cfg({"W1": W("MR::3", "M"), "W2": W("MT::2", "MV"), "W3": W("RF::2")}, qsize=2, until=True)),
        ("r3multisync", cfg({"W1": W("MR::3", "M"), "W2": W("MT::2", "MV"), "W3": W("RF::2")}, qsize=0)),
    ]
    for name, c in big:
        random_runs(cx, name, c, n, sizes=NZ_SIZES)
    # messages whose enqueue fails (full fail-fast queue) next to messages that are queued together: a buffer
    # given out twice would mix the bytes of two messages (deterministic pool: one P, no GC)
    cf = cfg({"W1": W("MR::2", "M", "MB", "M"), "W2": W("M", "MR::2", "MV", "M"), "W3": W("MB", "M", "M", "RF::2")}, qsize=1, until=False)
    cf["pinpool"] = True
    random_runs(cx, "r3failing", cf, n, policies=("stall", "window", "uniform"), sizes=[1, 7, 100, 500, 1000, 1023, 1024])
    # messages framed by the shipped codecs (text + delimiter): []byte goes out as one vectored write,
    # a string becomes a reader (body, then delimiter) = two low-level writes
    for name, c in [("codec-bytes", cfg({"W1": W("MD", "MD"), "W2": W("MD"), "W3": W("MD")}, qsize=2, until=True)),
                    ("codec-bytes-sync", cfg({"W1": W("MD", "MD"), "W2": W("MD"), "W3": W("MD")}, qsize=0)),
                    ("codec-string", cfg({"W1": W("MS", "MS"), "W2": W("MS"), "W3": W("MD")}, qsize=2, until=True)),
                    ("codec-string-sync", cfg({"W1": W("MS", "MS"), "W2": W("MS"), "W3": W("MD")}, qsize=0))]:
        random_runs(cx, name, c, n, sizes=[x for x in NZ_SIZES if x <= 4096], traced=False, codec=True)
    for name, c in [("lfcodec", cfg({"W1": W("MD", "MD"), "W2": W("MD"), "W3": W("MD")}, qsize=2, until=True)),
                    ("lfcodec-sync", cfg({"W1": W("MD", "MD"), "W2": W("MD"), "W3": W("MD")}, qsize=0))]:
        random_runs(cx, name, c, n, sizes=[x for x in NZ_SIZES if x <= 4096], traced=False, codec="lf")
    stress_runs(cx, 200 if quick else 3000)
    return finish(cx)


def check_C10(cx):
    cx.build()
    quick = cx.tier == "quick"
    inv = ["TypeOK", "C10_Snapshot", "C10_Exclusive", "C01_NoDup"]
    mcs = [("q1", cfg({"W1": W("W1", "Wv"), "W2": W("CW1")}, qsize=1, until=True, trackbufs=True)),
           ("q2nb", cfg({"W1": W("W1", "CWv"), "W2": W("M")}, qsize=2, until=False, trackbufs=True))]
    if not quick:
        mcs += [("q2close", cfg({"W1": W("W1", "Wv"), "W2": W("CW1")}, {"C1": "e1"}, qsize=2, until=True, trackbufs=True)),
                ("q1rf", cfg({"W1": W("RF::2"), "W2": W("MV")}, qsize=1, until=True, trackbufs=True))]
    for name, c in mcs:
        mc_and_replay_cex(cx, "MC" + name, c, inv, what="C10 snapshot/exclusive with pool users scribbling, " + name)
    # anti-vacuity: the two ways the code could get it wrong must violate the invariants in the specification
    for label, kw, expect in [("no-clone", {"clone": False}, "C10_Snapshot"), ("recycle-before-writev", {"recyclelate": False}, "C10_")]:
        c0 = cfg({"W1": W("W1"), "W2": W("Wv")}, qsize=1, until=True, trackbufs=True, **kw)
        res = model_check(cx.wd, "MCmut" + label.replace("-", ""), c0, ["C10_Snapshot", "C10_Exclusive"])
        cx.add_mc(res, c0, "self-test: specification mutant '%s' must violate C10" % label)
        cx.selftests["spec_mutant_" + label] = res["violated"]
        if not res["violated"] or not res["violated"].startswith(expect):
            raise Inconclusive("self-test failed: specification mutant %s does not violate %s (got %s)" % (label, expect, res["violated"]))
    graphs = [("gq1", cfg({"W1": W("W1"), "W2": W("Wv")}, qsize=1, until=True, trackbufs=True))]
    for name, c in graphs:
        st = replay_graph(cx, name, c, max_paths=300 if quick else None, sizes=[1024, 1025, 2048, 100, 4096])
        log("  replay %s: %s" % (name, st))
    # all entry points and size classes under load, callers overwrite their buffers right after every call,
    # the pool is scribbled on after every step
    big = [
        ("r4q2", cfg({"W1": W("W1", "Wv", "CW1"), "W2": W("Wv", "WW", "M"), "W3": W("CW1", "CWv"), "W4": W("MV", "MB")}, qsize=2, until=True, trackbufs=True)),
        ("r3q8", cfg({"W1": W("W1", "Wv", "CW1"), "W2": W("Wv", "RF::2", "M"), "W3": W("CW1", "MR::2")}, qsize=8, until=True, trackbufs=True)),
        ("r3q1c", cfg({"W1": W("W1", "Wv"), "W2": W("Wv", "WW"), "W3": W("CW1", "CWv")}, {"C1": "e1"}, qsize=1, until=True, trackbufs=True)),
        ("r3sync", cfg({"W1": W("W1", "Wv"), "W2": W("Wv", "WW", "M"), "W3": W("CW1", "CWv")}, qsize=0, trackbufs=True)),
    ]
    n = 40 if quick else 400
    for name, c in big:
        random_runs(cx, name, c, n, policies=("drain", "window", "uniform", "pct"), sizes=NZ_SIZES)
    # failing writes (full fail-fast queue, dead context, closed channel) must not hand their buffers out twice
    failing = [
        ("r3q1nb", cfg({"W1": W("RF::2", "W1", "Wv"), "W2": W("Wv", "MR::2", "W1"), "W3": W("W1", "CW1:dead", "Wv", "W1")}, qsize=1, until=False, trackbufs=True)),
        ("r3q2nbc", cfg({"W1": W("RF::2", "W1"), "W2": W("Wv", "MR::2"), "W3": W("CWv:dead", "W1", "W1")}, {"C1": "e1"}, qsize=2, until=False, trackbufs=True)),
    ]
    for name, c in failing:
        random_runs(cx, name, c, n, policies=("stall", "window", "uniform"), sizes=NZ_SIZES)
    stress_runs(cx, 200 if quick else 3000)
    cx.assume.append("pool scribbling relies on GOMAXPROCS(1) and disabled GC so that a recycled buffer is what the next Get of its class returns")
    return finish(cx)


CHECKS = {"C10": check_C10, "C09": check_C09, "C01": check_C01, "C02": check_C02, "C05": check_C05, "C06": check_C06, "C11": check_C11, "C18": check_C18}
