-------------------------------- MODULE Wire --------------------------------
(***************************************************************************)
(* transport/buffered.go: the four wrapper variants (read and/or write     *)
(* buffered, or raw) over an exact model of bufio.Writer / bufio.Reader.   *)
(* Bytes are positions of the written / the peer's stream; a connection    *)
(* write is a segment [start, start+len).                                  *)
(***************************************************************************)
EXTENDS Integers, Sequences, FiniteSets, TLC

CONSTANTS
    W,        \* write buffer size (0 = writes go straight to the connection)
    R,        \* read buffer size (0 = reads go straight to the connection)
    Sizes,    \* payload sizes for Write / elements of Writev / Read destinations
    MaxOps,
    Frags     \* the peer's stream as a sequence of fragment sizes (what each connection Read can return at most)

VARIABLES written, pend, segs, frags, rbuf, got, nops, last

vars == <<written, pend, segs, frags, rbuf, got, nops, last>>

MinI(a, b) == IF a < b THEN a ELSE b
\* bufio.NewReaderSize enlarges buffers below its minimum of 16 bytes
RB == IF R > 0 /\ R < 16 THEN 16 ELSE R

Init ==
    /\ written = 0 /\ pend = 0 /\ segs = <<>>
    /\ frags = Frags /\ rbuf = 0 /\ got = 0
    /\ nops = 0 /\ last = [op |-> "init"]

\* bufio.Writer.Write of n bytes starting at stream position at, with p bytes pending:
\* result [pend, segs] (segments appended to the connection)
RECURSIVE BW(_, _, _, _)
BW(p, at, n, out) ==
    IF n > W - p
    THEN IF p = 0
         THEN [pend |-> 0, segs |-> Append(out, <<at, n>>)]                 \* large write, empty buffer: direct
         ELSE LET c == W - p IN BW(0, at + c, n - c, Append(out, <<at - p, W>>))   \* fill, flush
    ELSE [pend |-> p + n, segs |-> out]

\* one Write call through the wrapper
WriteRes(p, at, n) ==
    IF W = 0 THEN [pend |-> 0, segs |-> IF n > 0 THEN << <<at, n>> >> ELSE <<>>]
    ELSE BW(p, at, n, <<>>)

RECURSIVE WritevRes(_, _, _, _)
WritevRes(p, at, ns, out) ==
    IF ns = <<>> THEN [pend |-> p, segs |-> out]
    ELSE LET r == WriteRes(p, at, Head(ns)) IN WritevRes(r.pend, at + Head(ns), Tail(ns), out \o r.segs)

RECURSIVE Sum(_)
Sum(s) == IF s = <<>> THEN 0 ELSE Head(s) + Sum(Tail(s))

Write(n) ==
    /\ nops < MaxOps
    /\ LET r == WriteRes(pend, written, n) IN
       /\ pend' = r.pend /\ segs' = segs \o r.segs
       /\ last' = [op |-> "write", n |-> n, segs |-> r.segs]
    /\ written' = written + n /\ nops' = nops + 1
    /\ UNCHANGED <<frags, rbuf, got>>

Writev(ns) ==
    /\ nops < MaxOps
    /\ LET r == WritevRes(pend, written, ns, <<>>) IN
       /\ pend' = r.pend /\ segs' = segs \o r.segs
       /\ last' = [op |-> "writev", n |-> Sum(ns), segs |-> r.segs]
    /\ written' = written + Sum(ns) /\ nops' = nops + 1
    /\ UNCHANGED <<frags, rbuf, got>>

Flush ==
    /\ nops < MaxOps
    /\ LET out == IF pend > 0 THEN << <<written - pend, pend>> >> ELSE <<>> IN
       /\ segs' = segs \o out
       /\ last' = [op |-> "flush", n |-> 0, segs |-> out]
    /\ pend' = 0 /\ nops' = nops + 1
    /\ UNCHANGED <<written, frags, rbuf, got>>

\* one Read on the connection with a destination of d bytes: [n, frags]
ConnRead(fs, d) ==
    IF fs = <<>> THEN [n |-> 0, frags |-> fs]
    ELSE LET k == MinI(d, Head(fs)) IN
         [n |-> k, frags |-> IF k = Head(fs) THEN Tail(fs) ELSE <<Head(fs) - k>> \o Tail(fs)]

\* Transport.Read with a destination of d bytes (d > 0)
Read(d) ==
    /\ nops < MaxOps /\ d > 0
    /\ IF R = 0
       THEN LET c == ConnRead(frags, d) IN
            /\ frags' = c.frags /\ rbuf' = 0 /\ got' = got + c.n
            /\ last' = [op |-> "read", n |-> c.n, eof |-> (c.n = 0)]
       ELSE IF rbuf > 0
            THEN LET k == MinI(d, rbuf) IN
                 /\ rbuf' = rbuf - k /\ got' = got + k /\ UNCHANGED frags
                 /\ last' = [op |-> "read", n |-> k, eof |-> FALSE]
            ELSE IF d >= RB
                 THEN LET c == ConnRead(frags, d) IN      \* large destination, empty buffer: direct read
                      /\ frags' = c.frags /\ rbuf' = 0 /\ got' = got + c.n
                      /\ last' = [op |-> "read", n |-> c.n, eof |-> (c.n = 0)]
                 ELSE LET c == ConnRead(frags, RB)        \* one fill, then copy
                          k == MinI(d, c.n) IN
                      /\ frags' = c.frags /\ rbuf' = c.n - k /\ got' = got + k
                      /\ last' = [op |-> "read", n |-> k, eof |-> (c.n = 0)]
    /\ nops' = nops + 1
    /\ UNCHANGED <<written, pend, segs>>

\* longest vector handed to Writev (overridden by the model-checking configurations)
MaxVecLen == 3
NSeqs == UNION {[1..k -> Sizes] : k \in 1..MaxVecLen}

Next ==
    \/ \E n \in Sizes : Write(n) \/ Read(n)
    \/ \E ns \in NSeqs : Writev(ns)
    \/ Flush

Spec == Init /\ [][Next]_vars

-----------------------------------------------------------------------------
\* C17: the connection has received exactly a prefix of what was written, in order, without gaps;
\* buffered and vectored writes are never reordered
RECURSIVE Contig(_, _)
Contig(s, at) == IF s = <<>> THEN at ELSE IF Head(s)[1] # at THEN -1 ELSE Contig(Tail(s), at + Head(s)[2])
C17_NoReorder == Contig(segs, 0) = written - pend
\* ... and all of it once Flush has returned
C17_Flushed == last.op = "flush" => Contig(segs, 0) = written
\* Read returns the peer's bytes in order: what was returned plus what is buffered plus what is left = the stream
C17_ReadNoLoss == got + rbuf + Sum(frags) = Sum(Frags)
C17_PendBound == pend <= W /\ rbuf <= RB
=============================================================================
