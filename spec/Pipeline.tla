------------------------------ MODULE Pipeline ------------------------------
(***************************************************************************)
(* pipeline.go / context.go / handler.go head+tail: the handler list, the  *)
(* building operations with the code's position rules, the queries, event  *)
(* propagation in both directions and the recover scopes of the entry      *)
(* points (C03, C07).  The model is the reference: recorded executions of  *)
(* the real pipeline are validated against it.                             *)
(***************************************************************************)
EXTENDS Integers, Sequences, FiniteSets, TLC

CONSTANTS
    Types,      \* handler type names, e.g. {"R", "W", "RW", "ALL"}
    IfsOf,      \* [Types -> SUBSET Kinds]: which handler interfaces a type implements
    MaxOps,     \* bound on operations per history
    MaxInst,    \* bound on handler instances
    MaxPerOp,   \* handlers per building call (1..MaxPerOp)
    WithPanics  \* TRUE: Fire operations may inject a panic (C07)

Kinds == {"A", "R", "W", "X", "I", "E"}   \* active read write exception inactive event

VARIABLES
    hs,        \* user handlers in pipeline order: sequence of instance ids
    typeOf,    \* instance id -> type ("" = unused)
    ninst, nops,
    closed,    \* "" or the exception value the channel was closed with
    pcancel,   \* the parent of the channel context has been cancelled (the channel itself is still open)
    last       \* observable result of the last operation

vars == <<hs, typeOf, ninst, nops, closed, pcancel, last>>

Size == Len(hs) + 2
\* interfaces at pipeline index i (0 = head, Size-1 = tail)
IfsAt(i) == IF i = 0 THEN {"W"} ELSE IF i = Size - 1 THEN {"X"} ELSE IfsOf[typeOf[hs[i]]]
InstAt(i) == IF i = 0 THEN 0 ELSE IF i = Size - 1 THEN -1 ELSE hs[i]

NoRes == [op |-> "none"]

Init ==
    /\ hs = <<>> /\ typeOf = [i \in 1..MaxInst |-> ""] /\ ninst = 0 /\ nops = 0
    /\ closed = "" /\ pcancel = FALSE /\ last = NoRes

-----------------------------------------------------------------------------
(* building *)

\* a building call names its handlers: new instances of a type, or an existing instance again
Refs == [new : BOOLEAN, t : Types, i : 1..MaxInst]

\* instance ids the call will use, in argument order
RECURSIVE Resolve(_, _)
Resolve(refs, n) ==
    IF refs = <<>> THEN <<>>
    ELSE IF Head(refs).new THEN <<n + 1>> \o Resolve(Tail(refs), n + 1)
         ELSE <<Head(refs).i>> \o Resolve(Tail(refs), n)

NewCount(refs) == Cardinality({k \in 1..Len(refs) : refs[k].new})

ValidRefs(refs) ==
    /\ Len(refs) \in 1..MaxPerOp
    /\ ninst + NewCount(refs) <= MaxInst
    /\ \A k \in 1..Len(refs) : (~refs[k].new) => (refs[k].i <= ninst /\ refs[k].t = typeOf[refs[k].i])
    /\ \A k \in 1..Len(refs) : refs[k].new => refs[k].i = 1

\* typeOf after registering the new instances of the call
RECURSIVE Reg(_, _, _)
Reg(refs, n, tf) ==
    IF refs = <<>> THEN tf
    ELSE IF Head(refs).new THEN Reg(Tail(refs), n + 1, [tf EXCEPT ![n + 1] = Head(refs).t])
         ELSE Reg(Tail(refs), n, tf)

Reverse(s) == [k \in 1..Len(s) |-> s[Len(s) + 1 - k]]
InsertAfter(s, k, ins) == SubSeq(s, 1, k) \o ins \o SubSeq(s, k + 1, Len(s))

Built(name, pos, refs, newhs) ==
    /\ hs' = newhs
    /\ typeOf' = Reg(refs, ninst, typeOf)
    /\ ninst' = ninst + NewCount(refs)
    /\ nops' = nops + 1
    /\ last' = [op |-> name, pos |-> pos, order |-> newhs, size |-> Len(newhs) + 2]
    /\ UNCHANGED <<closed, pcancel>>

\* AddFirst inserts its arguments one by one at the front
AddFirst(refs) ==
    /\ nops < MaxOps /\ ValidRefs(refs)
    /\ Built("AddFirst", 0, refs, Reverse(Resolve(refs, ninst)) \o hs)

AddLast(refs) ==
    /\ nops < MaxOps /\ ValidRefs(refs)
    /\ Built("AddLast", 0, refs, hs \o Resolve(refs, ninst))

\* AddHandler(position): position >= Size is rejected, -1 and Size-1 mean "last",
\* otherwise the handlers go after the context at index position (0 = head)
AddHandler(pos, refs) ==
    /\ nops < MaxOps /\ ValidRefs(refs)
    /\ pos \in -1..Size
    /\ IF pos >= Size
       THEN /\ last' = [op |-> "AddHandler", pos |-> pos, rejected |-> TRUE]
            /\ nops' = nops + 1
            /\ UNCHANGED <<hs, typeOf, ninst, closed, pcancel>>
       ELSE IF pos = -1 \/ pos = Size - 1
            THEN Built("AddHandler", pos, refs, hs \o Resolve(refs, ninst))
            ELSE Built("AddHandler", pos, refs, InsertAfter(hs, pos, Resolve(refs, ninst)))

-----------------------------------------------------------------------------
(* queries: IndexOf / LastIndexOf for "is instance x", ContextAt *)

Matches(x) == {i \in 1..Len(hs) : hs[i] = x}
Min(S) == CHOOSE m \in S : \A n \in S : m <= n
Max(S) == CHOOSE m \in S : \A n \in S : m >= n

Query(x) ==
    /\ nops < MaxOps /\ x \in 1..MaxInst /\ x <= ninst + 1
    /\ last' = [op |-> "Query", x |-> x, size |-> Size,
                first |-> IF Matches(x) = {} THEN -1 ELSE Min(Matches(x)),
                lastidx |-> IF Matches(x) = {} THEN -1 ELSE Max(Matches(x)),
                order |-> hs]
    /\ nops' = nops + 1
    /\ UNCHANGED <<hs, typeOf, ninst, closed, pcancel>>

\* environment: the parent context is cancelled (bootstrap shutdown) while the read loop is parked in
\* Read: the channel is still open, and panics are contained exactly as before
PCancel ==
    /\ WithPanics /\ nops < MaxOps /\ ~pcancel /\ closed = ""
    /\ pcancel' = TRUE
    /\ last' = [op |-> "PCancel"]
    /\ nops' = nops + 1
    /\ UNCHANGED <<hs, typeOf, ninst, closed>>

-----------------------------------------------------------------------------
(* event propagation *)

NextIn(i, k)  == LET S == {j \in (i + 1)..(Size - 1) : k \in IfsAt(j)} IN IF S = {} THEN -1 ELSE Min(S)
PrevOut(i, k) == LET S == {j \in 0..(i - 1) : k \in IfsAt(j)} IN IF S = {} THEN -1 ELSE Max(S)

\* visits of one traversal starting after/before index i; stop = instances that do not forward;
\* pan = instance that panics when visited (0 = nobody)
\* result: [log |-> sequence of <<index, instance>>, end |-> "stopped"|"fell"|"head"|"tail"|"panic"]
RECURSIVE Walk(_, _, _, _)
Walk(i, k, stop, pan) ==
    LET j == IF k = "W" THEN PrevOut(i, k) ELSE NextIn(i, k) IN
    IF j = -1 THEN [log |-> <<>>, end |-> "fell"]
    ELSE IF j = 0 THEN [log |-> <<>>, end |-> "head"]
    ELSE IF j = Size - 1 THEN [log |-> <<>>, end |-> "tail"]
    ELSE IF hs[j] = pan THEN [log |-> << <<j, hs[j]>> >>, end |-> "panic"]
    ELSE IF hs[j] \in stop THEN [log |-> << <<j, hs[j]>> >>, end |-> "stopped"]
    ELSE LET r == Walk(j, k, stop, pan) IN [log |-> << <<j, hs[j]>> >> \o r.log, end |-> r.end]

\* Entry points. "pl" = Pipeline.Fire*; "ch" = Channel.Write / Channel.Trigger;
\* "ctx" = ContextAt(from).Write / .Trigger; "loop" = the read loop (active/read)
StartIdx(entry, k, from) ==
    IF entry = "ctx" THEN from
    ELSE IF k = "W" THEN Size - 1 ELSE 0

\* kinds of panic values: plain error, string, runtime error, timeout / non-timeout net.Error
PVals == {"err", "str", "rt", "netto", "netfatal"}

Fire(k, entry, from, stop, pan, pv) ==
    /\ nops < MaxOps
    /\ k \in Kinds /\ entry \in {"pl", "ch", "ctx", "loop"}
    /\ (entry = "ctx") => (k \in {"W", "E"} /\ from \in 0..(Size - 1))
    /\ (entry = "ch") => k \in {"W", "E"}
    /\ (entry = "loop") => k \in {"A", "R"}
    /\ (entry # "ctx") => from = 0
    /\ stop \subseteq 1..ninst
    /\ (pan # 0) => (WithPanics /\ pan \in 1..ninst /\ pan \notin stop /\ entry # "pl" /\ k \notin {"X", "I"} /\ closed = "")
    /\ (pan = 0) => pv = "err"
    /\ closed = ""
    /\ LET w == Walk(StartIdx(entry, k, from), k, stop, pan)
           \* the recover scope of the entry point turns the panic into an exception traversal
           x == IF w.end = "panic" THEN Walk(0, "X", stop, 0) ELSE [log |-> <<>>, end |-> "none"]
           closedBy ==
               IF w.end = "tail" /\ k = "X" THEN "ex"                  \* unhandled exception closes
               ELSE IF w.end = "panic" /\ x.end = "tail" THEN "panic"   \* nobody consumed the panic
               ELSE IF w.end = "panic" /\ pv = "netfatal" /\ entry \in {"ch", "loop"} THEN "panic"
               ELSE ""
       IN /\ last' = [op |-> "Fire", k |-> k, entry |-> entry, from |-> from, stop |-> stop, pan |-> pan, pv |-> pv,
                      log |-> w.log, wrote |-> (w.end = "head"), xlog |-> x.log,
                      closed |-> closedBy, escaped |-> FALSE]
          /\ closed' = closedBy
    /\ nops' = nops + 1
    /\ UNCHANGED <<hs, typeOf, ninst, pcancel>>

-----------------------------------------------------------------------------
RefSeqs == UNION {[1..n -> Refs] : n \in 1..MaxPerOp}

Next ==
    \/ \E refs \in RefSeqs : AddFirst(refs) \/ AddLast(refs) \/ \E pos \in -1..(MaxInst + 2) : AddHandler(pos, refs)
    \/ \E x \in 1..MaxInst : Query(x)
    \/ PCancel
    \/ \E k \in Kinds, entry \in {"pl", "ch", "ctx", "loop"}, from \in 0..(MaxInst + 1), stop \in SUBSET (1..MaxInst),
          pan \in 0..MaxInst, pv \in PVals : Fire(k, entry, from, stop, pan, pv)

Spec == Init /\ [][Next]_vars

-----------------------------------------------------------------------------
(* sanity of the reference itself *)
TypeOK == /\ Len(hs) <= MaxInst * MaxOps /\ ninst <= MaxInst
          /\ \A i \in 1..Len(hs) : hs[i] \in 1..ninst /\ typeOf[hs[i]] \in Types

\* IndexOf from the front and LastIndexOf from the back name the same element when it is unique
QueryConsistent ==
    last.op = "Query" =>
        /\ (Cardinality(Matches(last.x)) = 1 => last.first = last.lastidx)
        /\ (last.first = -1 <=> last.lastidx = -1)
        /\ last.first <= last.lastidx

\* every visited position implements the kind; visit order strictly monotone
FireConsistent ==
    last.op = "Fire" =>
        /\ \A n \in 1..Len(last.log) : last.k \in IfsAt(last.log[n][1]) /\ hs[last.log[n][1]] = last.log[n][2]
        /\ \A n \in 1..(Len(last.log) - 1) :
              IF last.k = "W" THEN last.log[n][1] > last.log[n + 1][1] ELSE last.log[n][1] < last.log[n + 1][1]
        /\ (last.wrote => last.k = "W")
        /\ (last.pan # 0 => ~last.escaped)
=============================================================================
