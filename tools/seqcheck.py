"""Checks of the sequential specification modules: Pool (C19), ..."""
import json, os, random, re, time
from vlib import *
from core import *

TREE = json.load(open(os.path.join(SPEC, "tree_model.json")))


def generic_graph(cx, name, module, consts, timeout=900, workers=4):
    cfg_lines = ["SPECIFICATION Spec", "CHECK_DEADLOCK FALSE"]
    write_mc(cx.wd, name, module, consts, cfg_lines)
    dot = os.path.join(cx.wd, name + ".dot")
    res = tlc_must(run_tlc(cx.wd, name, args=["-dump", "dot,actionlabels", dot], timeout=timeout, workers=workers))
    init, adj, _ = parse_dot(dot, None)
    os.remove(dot)
    if init is None:
        raise Inconclusive("no initial state in dot dump of %s" % name)
    cx.add_mc(res, consts, "state graph for replay: " + name)
    return init, adj


def generic_mc(cx, name, module, consts, invariants, properties=(), spec="Spec", timeout=900, what=""):
    cfg_lines = ["SPECIFICATION %s" % spec]
    if invariants:
        cfg_lines.append("INVARIANTS " + " ".join(invariants))
    if properties:
        cfg_lines.append("PROPERTIES " + " ".join(properties))
    cfg_lines.append("CHECK_DEADLOCK FALSE")
    write_mc(cx.wd, name, module, consts, cfg_lines)
    res = tlc_must(run_tlc(cx.wd, name, timeout=timeout))
    cx.add_mc(res, consts, what or name)
    log("  TLC %s: %s distinct, violated=%s, t=%.1fs" % (what or name, res.get("distinct"), res.get("violated"), time.time() - cx.t0))
    return res


def validate(cx, name, trace_module, consts, results, invariants, reset):
    v = validate_traces_generic(cx.wd, name, trace_module, consts, [r for r in results if r.get("events")], invariants, reset=reset)
    cx.traces_validated += len(v["accepted"])
    cx.states += v["states"]
    for rid, step, line in v["rejected"]:
        cx.nonconforming.append({"case": rid, "step": step})
    for rid, step, inv in v["inv_violations"]:
        cx.nonconforming.append({"case": rid, "step": step, "invariant": inv})
    return v


# ---------------------------------------------------------------- Pool / C19
def pool_consts(mx, sizes, maxops, maxbufs, fixput=None):
    return {"Max": mx, "Sizes": set(sizes), "MaxOps": maxops, "MaxBufs": maxbufs,
            "FixPut": TREE["FixPut"] if fixput is None else fixput}


_pool_lab = re.compile(r"(\w+)\((.*)\)")


def pool_op(label):
    m = _pool_lab.match(label)
    name, args = m.group(1), [int(x) for x in m.group(2).split(",") if x.strip()]
    if name == "GetHit":
        return {"op": "get", "n": args[0]}
    if name == "GetMiss":
        return {"op": "get", "n": args[0]}
    if name == "Put":
        return {"op": "put", "id": args[0]}
    if name == "PutForeign":
        return {"op": "putf", "cap": args[0]}
    raise Inconclusive("unknown Pool label " + label)


DEFAULT_SIZES = [0, 1, 1023, 1024, 1025, 1500, 2047, 2048, 2049, 3000, 4096, 5000, 32768, 40000, 65535, 65536, 65537, 131072]


def check_C19(cx):
    cx.module = "pool"
    cx.build()
    quick = cx.tier == "quick"
    inv = ["C19_Cap", "C19_ShardCap", "C19_Exclusive", "PMathOK"]
    pools = [("default", 65536, [1, 1024, 1025, 1500, 2048, 2049, 3000, 65536, 65537], 4 if quick else 5, 3),
             ("max10", 10, list(range(0, 21)) + [32, 33], 3 if quick else 4, 3),
             ("max1", 1, [0, 1, 2, 3], 4, 3),
             ("max100", 100, [0, 1, 2, 3, 4, 5, 63, 64, 65, 100, 127, 128, 129, 200, 256], 3 if quick else 4, 3)]
    if not quick:
        pools += [("max3", 3, list(range(0, 10)), 5, 4), ("max64", 64, list(range(0, 130, 3)) + [64, 65, 127, 128], 4, 3),
                  ("max8", 8, list(range(0, 18)), 5, 4)]
    all_results = []
    for name, mx, sizes, maxops, maxbufs in pools:
        consts = pool_consts(mx, sizes, maxops, maxbufs)
        res = generic_mc(cx, "MC" + name, "Pool", consts, inv, what="C19 invariants, pool.New(%d), histories of %d ops over %d sizes" % (mx, maxops, len(sizes)))
        if res["violated"]:
            # replay the counterexample history on the real pools
            ops = [pool_op("%s(%s)" % (s["action"], s["args"])) for s in res["trace"] if s["action"] in ("GetHit", "GetMiss", "Put", "PutForeign")]
            cases = [{"id": "%s-cex-%s" % (name, k), "kind": k, "max": mx, "ops": ops, "max_bufs": 16, "seed": 1} for k in ("bytes", "buffer")]
            rs = run_driver(cx.driver, "pool", cases, cx.wd, tag="cex")
            cx.absorb(rs, cases)
        # edge cover of a smaller graph replayed on both real pools
        gconsts = pool_consts(mx, sizes[:6] if len(sizes) > 6 else sizes, 3, 3)
        init, adj = generic_graph(cx, "G" + name, "Pool", gconsts)
        paths, total, planned = edge_cover(init, adj, cx.rnd, max_paths=400 if quick else None)
        cases = []
        for i, p in enumerate(paths):
            ops = [pool_op(l) for _, l, _ in p]
            for kind in ("bytes", "buffer"):
                cases.append({"id": "%s-%s-p%d" % (name, kind, i), "kind": kind, "max": mx, "ops": ops, "max_bufs": 3, "seed": 1})
        rs = run_driver(cx.driver, "pool", cases, cx.wd, tag=name)
        cx.absorb(rs, cases)
        v = validate(cx, "T" + name, "TracePool", gconsts, rs, inv[:3], {"op": "reset"})
        cx.edges_total += total
        cx.edges_walked += planned if not v["rejected"] else 0
        # random histories with more operations and buffers, validated by TLC
        rc = pool_consts(mx, sizes, 40, 12)
        cases = []
        for i in range(30 if quick else 300):
            cases.append({"id": "%s-r%d" % (name, i), "kind": ("bytes", "buffer")[i % 2], "max": mx, "random": 40,
                          "sizes": sizes, "seed": cx.rnd.randrange(1 << 40), "max_bufs": 12})
        rs = run_driver(cx.driver, "pool", cases, cx.wd, tag=name + "r")
        cx.absorb(rs, cases)
        validate(cx, "TR" + name, "TracePool", rc, rs, inv[:3], {"op": "reset"})
        if len(cx.samples) < 3 and rs:
            cx.samples.append({"pool_max": mx, "history": rs[0]["events"][:12]})
        log("  pool %s: %d graph edges, %d paths, t=%.1fs" % (name, total, len(paths), time.time() - cx.t0))
    # pmath: the TLA+ operators (checked by PMathOK) against the real functions, value by value
    rng = list(range(0, (1 << 17) + 3)) if not quick else list(range(0, 5000)) + list(range(60000, 70000)) + list(range(131000, 131075))
    for k in range(3, 31):
        rng += [(1 << k) - 1, 1 << k, (1 << k) + 1]
    rng = sorted(set(x for x in rng if x <= (1 << 30)))
    cases = [{"id": "pmath-%d" % mx, "kind": "bytes", "max": mx, "pmath": rng, "max_bufs": 1, "seed": 1} for mx in (65536, 10, 1, 100, 3, 64)]
    rs = run_driver(cx.driver, "pool", cases, cx.wd, tag="pmath", shards=6)
    bad = 0
    for r, c in zip(rs, cases):
        mx = c["max"]
        maxsize = ceil2(max(mx, 1))
        sh0 = max(1, min(maxsize, 64))
        step = ceil2(maxsize // sh0)
        nsh = sh0 + 1 if step * sh0 < maxsize else sh0
        if (r["shards"], r["step"]) != (nsh, step):
            cx.fails.append(({"prop": "C19", "key": "params/%d" % mx, "msg": "pool.New(%d): shards/step %s, model %s" % (mx, (r["shards"], r["step"]), (nsh, step)), "step": 0}, c, r))
        for n, ce, fl, cl, ix in r["pmath"]:
            ece, efl = ceil2(n), floor2(n)
            ecl = step if n <= step else ceil2(n)
            if (ce, fl, cl, ix) != (ece, efl, ecl, (ecl - 1) // step):
                bad += 1
                cx.fails.append(({"prop": "C19", "key": "pmath", "msg": "n=%d: code ceil/floor/class/idx=%s model=%s" % (n, (ce, fl, cl, ix), (ece, efl, ecl, (ecl - 1) // step)), "step": 0}, c, r))
                break
    cx.extra_cov["pmath_values_compared"] = len(rng) * len(cases)
    cx.replays += len(rng) * 0
    cx.assume.append("sync.Pool is modelled as a bag (any element or none); runs pin GOMAXPROCS(1) and disable GC so histories are reproducible")
    cx.assume.append("sizes >= 2^31 are outside TLC's integers and not covered")
    return finish(cx, rule="cases = Get/Put histories: TLC state-graph edge covers and seeded random histories executed on the real pbytes and pbuffer "
                            "pools; distinct_nontrivial = distinct Pool.tla transitions replayed")


def ceil2(n):
    if n <= 2:
        return n
    p = 1
    while p < n:
        p <<= 1
    return p


def floor2(n):
    if n <= 2:
        return n
    p = 1
    while p * 2 <= n:
        p <<= 1
    return p


CHECKS = {"C19": check_C19}
