package main

// Idle driver (C20): the real read-idle / write-idle handlers (built without the >= 1s assertion)
// in a real pipeline. A script of steps (from TLC paths of Idle.tla, or seeded random) is executed
// with real timers: a Tick is a sleep of one tick, the three sections of a timer callback are
// gated by the hooks i.cb / i.deliver / i.rearm. Wall-clock is used one-sidedly in the oracles.

import (
	"context"
	"fmt"
	"math/rand"
	"runtime"
	"sync"
	"sync/atomic"
	"time"

	netty "github.com/go-netty/go-netty"

	"verifharness/mock"
	"verifharness/sched"
)

type IdleStep struct {
	Op string `json:"op"` // active io tick fire check deliver rearm inactive
	I  int    `json:"i"`  // callback slot for fire/check/deliver/rearm
}

type IdleCase struct {
	ID            string     `json:"id"`
	Kind          string     `json:"kind"` // read | write
	TickMs        int        `json:"tick_ms"`
	D             int        `json:"d"` // idle period in ticks
	Steps         []IdleStep `json:"steps"`
	Panic         bool       `json:"panic"`          // the idle event handler panics
	Free          bool       `json:"free"`           // callbacks are not gated (timing scenario): steps are active/io/tick/inactive only
	InactivePanic bool       `json:"inactive_panic"` // a handler behind the idle handler panics in HandleInactive (the channel's invoke scope absorbs it)
	Random        int        `json:"random"`
	Seed          int64      `json:"seed"`
}

type IdleEvent struct {
	Case string `json:"case,omitempty"`
	Op   string `json:"op"`
	I    int    `json:"i"`
	Tick int    `json:"tick"` // logical clock (number of Tick steps so far)
	Out  string `json:"out"`  // for check: where the callback went (i.deliver | i.rearm)
	NEv  int    `json:"nev"`  // idle events delivered so far
}

type IdleResult struct {
	ID         string         `json:"id"`
	Events     []IdleEvent    `json:"events"`
	Fails      []Fail         `json:"fails"`
	HarnessErr string         `json:"harness_err,omitempty"`
	Timing     string         `json:"timing,omitempty"` // non-empty: the timing assumption of the replay broke; case not counted
	Diverged   int            `json:"diverged"`
	Actions    map[string]int `json:"actions"`
	Delivered  int            `json:"delivered"`
	JitterMs   int            `json:"jitter_ms"` // worst oversleep of a 2 ms sleep during the case (scheduler stalls of the machine)
}

type idleArrival struct {
	gid     uint64
	point   string
	release chan struct{}
}

type idleWorld struct {
	mu        sync.Mutex
	arrivals  chan idleArrival
	gated     bool
	events    []time.Time // delivery times of idle events
	lastIO    time.Time   // stamped before entering the handler
	activeAt  time.Time
	inactAt   time.Time
	excs      []error
	panicking bool
	cbStarts  []time.Time
	ioBegin   []time.Time
	ioDone    []time.Time
}

type idleEventProbe struct{ w *idleWorld }

func (p idleEventProbe) HandleEvent(ctx netty.EventContext, ev netty.Event) {
	switch ev.(type) {
	case netty.ReadIdleEvent, netty.WriteIdleEvent:
		p.w.mu.Lock()
		p.w.events = append(p.w.events, time.Now())
		pan := p.w.panicking
		p.w.mu.Unlock()
		if pan {
			panic(fmt.Errorf("idle event handler failed"))
		}
	}
}

func (p idleEventProbe) HandleException(ctx netty.ExceptionContext, ex netty.Exception) {
	p.w.mu.Lock()
	p.w.excs = append(p.w.excs, ex)
	p.w.mu.Unlock()
}

// idleBoom is a read message that makes the handler behind the idle handler panic.
type idleBoom struct{}

type panicOnBoom struct{}

func (panicOnBoom) HandleRead(ctx netty.InboundContext, message netty.Message) {
	if _, ok := message.(idleBoom); ok {
		panic("verif: downstream read handler fails")
	}
	ctx.HandleRead(message)
}

type panicOnInactive struct{}

func (panicOnInactive) HandleInactive(ctx netty.InactiveContext, ex netty.Exception) {
	panic("verif: downstream inactive handler fails")
}

func runIdleCase(c *IdleCase) *IdleResult {
	res := &IdleResult{ID: c.ID, Fails: []Fail{}, Actions: map[string]int{}}
	failed := map[string]bool{}
	fail := func(key, msg string) {
		if !failed[key] {
			failed[key] = true
			res.Fails = append(res.Fails, Fail{Prop: "C20", Key: key, Msg: msg})
		}
	}
	tick := time.Duration(c.TickMs) * time.Millisecond
	d := time.Duration(c.D) * tick
	// watchdog: how late does this machine wake a sleeping goroutine right now? Oracles that rely on timers being
	// roughly punctual are skipped when the answer is "very".
	var jitter int64
	stopWatch := make(chan struct{})
	go func() {
		for {
			select {
			case <-stopWatch:
				return
			default:
			}
			t0 := time.Now()
			time.Sleep(2 * time.Millisecond)
			if over := int64(time.Since(t0) - 2*time.Millisecond); over > atomic.LoadInt64(&jitter) {
				atomic.StoreInt64(&jitter, over)
			}
		}
	}()
	defer func() {
		close(stopWatch)
		res.JitterMs = int(time.Duration(atomic.LoadInt64(&jitter)) / time.Millisecond)
	}()
	w := &idleWorld{arrivals: make(chan idleArrival, 16), gated: !c.Free, panicking: c.Panic}
	var h netty.Handler
	netty.VerifHook = func(obj interface{}, point string) {
		if len(point) < 2 || point[:2] != "i." || obj != h {
			return // not a timer callback of this case's handler (timers of earlier cases may still be alive)
		}
		if point == "i.cb" {
			w.mu.Lock()
			w.cbStarts = append(w.cbStarts, time.Now())
			w.mu.Unlock()
		}
		if !w.gated {
			return
		}
		a := idleArrival{gid: sched.Gid(), point: point, release: make(chan struct{})}
		w.arrivals <- a
		<-a.release
	}
	tr := mock.NewTransport(nil)
	pl := netty.NewPipeline()
	if c.Kind == "write" {
		h = netty.VerifWriteIdleHandler(d)
	} else {
		h = netty.VerifReadIdleHandler(d)
	}
	pl.AddLast(h, idleEventProbe{w}, panicOnBoom{})
	if c.InactivePanic {
		pl.AddLast(panicOnInactive{})
	}
	ch := netty.NewChannel()(1, context.Background(), pl, tr, holdExecutor{})
	go pl.ServeChannel(ch)
	for i := 0; pl.Channel() == nil && i < 1000000; i++ {
		runtime.Gosched()
	}
	rnd := rand.New(rand.NewSource(c.Seed))
	steps := append([]IdleStep(nil), c.Steps...)
	if c.Random > 0 {
		steps = append(steps, IdleStep{Op: "active"})
		for i := 0; i < c.Random; i++ {
			switch r := rnd.Intn(10); {
			case r < 6:
				steps = append(steps, IdleStep{Op: "tick"})
			case r < 9:
				steps = append(steps, IdleStep{Op: "io"})
			default:
				steps = append(steps, IdleStep{Op: "tick"}, IdleStep{Op: "tick"}, IdleStep{Op: "tick"}, IdleStep{Op: "tick"})
			}
		}
		steps = append(steps, IdleStep{Op: "inactive"}, IdleStep{Op: "tick"}, IdleStep{Op: "tick"}, IdleStep{Op: "tick"}, IdleStep{Op: "tick"}, IdleStep{Op: "tick"}, IdleStep{Op: "tick"}, IdleStep{Op: "tick"})
	}
	ticks := 0
	var t0 time.Time
	slots := map[int]*idleArrival{} // callback slot -> where it stands
	var pending []*idleArrival
	// waitArrival: next arrival of goroutine gid (0 = a callback that is just starting) within the timeout
	waitArrival := func(gid uint64, timeout time.Duration) *idleArrival {
		deadline := time.After(timeout)
		for {
			for k, a := range pending {
				if (gid == 0 && a.point == "i.cb") || (gid != 0 && a.gid == gid) {
					pending = append(pending[:k], pending[k+1:]...)
					return a
				}
			}
			select {
			case a := <-w.arrivals:
				aa := a
				pending = append(pending, &aa)
			case <-deadline:
				return nil
			}
		}
	}
	nev := func() int {
		w.mu.Lock()
		defer w.mu.Unlock()
		return len(w.events)
	}
	active, inactive := false, false
loop:
	for _, st := range steps {
		ev := IdleEvent{Op: st.Op, I: st.I}
		res.Actions[st.Op]++
		switch st.Op {
		case "active":
			w.mu.Lock()
			w.lastIO = time.Now()
			w.activeAt = w.lastIO
			w.mu.Unlock()
			pl.FireChannelActive()
			active = true
		case "io":
			if !active {
				res.Diverged++
				continue
			}
			w.mu.Lock()
			w.lastIO = time.Now()
			w.ioBegin = append(w.ioBegin, w.lastIO)
			w.mu.Unlock()
			if c.Kind == "write" {
				pl.FireChannelWrite([]byte("x"))
			} else {
				pl.FireChannelRead("x")
			}
			w.mu.Lock()
			w.ioDone = append(w.ioDone, time.Now())
			w.mu.Unlock()
		case "iopanic":
			// a read / write that passes the idle handler and then makes a later handler panic (the channel's invoke
			// scope turns that into an exception event; the channel stays open and idle)
			if !active {
				res.Diverged++
				continue
			}
			// (whether a message whose handling failed "passed" the handler is left open: it does not enter the
			// one-sided "not earlier than" oracle; what is asked is that idle events keep coming afterwards)
			func() {
				defer func() { _ = recover() }()
				if c.Kind == "write" {
					pl.FireChannelWrite(12345) // no handler converts an int: the head handler panics
				} else {
					pl.FireChannelRead(idleBoom{})
				}
			}()
		case "tick":
			// absolute schedule: tick k ends at t0 + k*tick, so that sleep overshoot does not accumulate
			if t0.IsZero() {
				t0 = time.Now()
			}
			ticks++
			if dl := t0.Add(time.Duration(ticks) * tick); time.Until(dl) > 0 {
				time.Sleep(time.Until(dl))
			} else if time.Since(dl) > tick/2 {
				// the machine stalled for more than half a tick: re-base the logical clock
				t0 = time.Now().Add(-time.Duration(ticks) * tick)
			}
		case "inactive":
			func() {
				// (Channel.Close fires the event inside invokeMethod, which absorbs panics of a closed channel)
				defer func() { _ = recover() }()
				pl.FireChannelInactive(nil)
			}()
			w.mu.Lock()
			w.inactAt = time.Now()
			w.mu.Unlock()
			inactive = true
		case "fire":
			a := waitArrival(0, tick+tick/2)
			if a == nil {
				res.Timing = fmt.Sprintf("no timer callback arrived within 1.5 ticks of the model's Fire step (tick %d)", ticks)
				break loop
			}
			slots[st.I] = a
		case "check":
			// the check reads the real clock: keep it clear of the tick boundary at which IO steps happen
			time.Sleep(tick / 5)
			a := slots[st.I]
			if a == nil {
				res.Timing = "callback slot empty at check"
				break loop
			}
			close(a.release)
			delete(slots, st.I)
			n := waitArrival(a.gid, 2*time.Second)
			if n == nil {
				res.HarnessErr = "callback did not reach its next section"
				break loop
			}
			slots[st.I] = n
			ev.Out = n.point
		case "deliver":
			a := slots[st.I]
			if a == nil || a.point != "i.deliver" {
				res.Timing = "callback is not at the deliver section (real-time check disagreed with the logical clock)"
				break loop
			}
			close(a.release)
			delete(slots, st.I)
			n := waitArrival(a.gid, 2*time.Second)
			if n == nil {
				res.HarnessErr = "callback did not reach the re-arm section"
				break loop
			}
			slots[st.I] = n
		case "rearm":
			a := slots[st.I]
			if a == nil || a.point != "i.rearm" {
				res.Timing = "callback is not at the re-arm section"
				break loop
			}
			close(a.release)
			delete(slots, st.I)
			time.Sleep(200 * time.Microsecond)
		}
		if !c.Free && (st.Op == "io" || st.Op == "inactive" || st.Op == "active") {
			// a callback nobody has claimed: a real timer fired although the model's path has not fired it
			select {
			case a := <-w.arrivals:
				aa := a
				pending = append(pending, &aa)
			default:
			}
			for _, a := range pending {
				if a.point == "i.cb" {
					res.Timing = fmt.Sprintf("a timer callback started at step %s (tick %d) before the model fired it", st.Op, ticks)
				}
			}
			if res.Timing != "" {
				break loop
			}
		}
		ev.Tick = ticks
		ev.NEv = nev()
		res.Events = append(res.Events, ev)
	}
	// let everything go and give late callbacks the chance to show up
	w.mu.Lock()
	w.gated = false
	w.mu.Unlock()
	for _, a := range slots {
		close(a.release)
	}
	for _, a := range pending {
		close(a.release)
	}
	drain := time.After(3*d + 20*time.Millisecond)
drainLoop:
	for {
		select {
		case a := <-w.arrivals:
			close(a.release)
		case <-drain:
			break drainLoop
		}
	}
	// ---- oracles (one-sided on wall-clock time)
	w.mu.Lock()
	defer w.mu.Unlock()
	res.Delivered = len(w.events)
	// NotEarly, one-sided: event time (taken late, inside the event handler) minus the begin (taken early)
	// of every IO that had completed before the delivering callback started must be a full period
	for _, te := range w.events {
		var tc time.Time
		for _, s := range w.cbStarts {
			if !s.After(te) && (tc.IsZero() || s.After(tc)) {
				tc = s
			}
		}
		if tc.IsZero() {
			fail("event-without-callback", "an idle event was delivered although no timer callback had started")
			continue
		}
		if te.Sub(w.activeAt) < d {
			fail("early-since-activation", fmt.Sprintf("an idle event was delivered %v after activation, idle period %v", te.Sub(w.activeAt), d))
		}
		for k, done := range w.ioDone {
			if done.Before(tc) && te.Sub(w.ioBegin[k]) < d {
				fail("early", fmt.Sprintf("an idle event was delivered %v after a %s had passed the handler (idle period %v)", te.Sub(w.ioBegin[k]), c.Kind, d))
			}
		}
		if !w.inactAt.IsZero() && te.After(w.inactAt) && tc.After(w.inactAt) {
			fail("event-after-inactive", fmt.Sprintf("an idle event was delivered by a timer callback that started %v after inactive", tc.Sub(w.inactAt)))
		}
	}
	if inactive && time.Duration(atomic.LoadInt64(&jitter)) < d/4 {
		// no idle period is timed after inactive: a callback that starts later than one full period after
		// inactive can only stem from a timer armed after inactive
		for _, t := range w.cbStarts {
			if t.After(w.inactAt.Add(d + d/2)) {
				fail("timer-after-inactive", fmt.Sprintf("a timer callback started %v after the inactive event had passed the handler (idle period %v)", t.Sub(w.inactAt), d))
			}
		}
	}
	if c.Panic && len(w.events) > 0 && len(w.excs) == 0 {
		fail("panic-not-routed", "the idle event handler panicked but no exception was delivered")
	}
	netty.VerifHook = nil
	_ = active
	return res
}
