package main

// Pipeline driver (C03, C07): executes building operations, queries and event firings on a
// real pipeline attached to a real (synchronous) channel over the mock transport and
// records, per operation, what the real code did; TLC validates the record against
// Pipeline.tla, which is the reference.

import (
	"context"
	"errors"
	"fmt"
	"math/rand"
	"os"
	"runtime"
	"sort"
	"syscall"

	netty "github.com/go-netty/go-netty"

	"verifharness/mock"
)

type PipeRef struct {
	New bool   `json:"new"`
	T   string `json:"t"`
	I   int    `json:"i"`
}

type PipeOp struct {
	Op    string    `json:"op"`
	Pos   int       `json:"pos"`
	Refs  []PipeRef `json:"refs,omitempty"`
	X     int       `json:"x"`
	K     string    `json:"k,omitempty"`
	Entry string    `json:"entry,omitempty"`
	From  int       `json:"from"`
	Stop  []int     `json:"stop"`
	Pan   int       `json:"pan"`
	Pv    string    `json:"pv,omitempty"`
	// Reuse: the building call passes the handler slice the application kept from the previous
	// building call (same handlers, same slice object), like a shared initializer list
	Reuse bool `json:"reuse,omitempty"`
}

type PipeCase struct {
	ID       string   `json:"id"`
	Ops      []PipeOp `json:"ops"`
	Random   int      `json:"random"`
	Types    []string `json:"types"`
	MaxInst  int      `json:"max_inst"`
	MaxPerOp int      `json:"max_per_op"`
	Panics   bool     `json:"panics"`
	Seed     int64    `json:"seed"`
}

type PipeEvent struct {
	Case     string    `json:"case,omitempty"`
	Op       string    `json:"op"`
	Pos      int       `json:"pos"`
	Refs     []PipeRef `json:"refs"`
	Order    []int     `json:"order"`
	Size     int       `json:"size"`
	Rejected bool      `json:"rejected"`
	X        int       `json:"x"`
	First    int       `json:"first"`
	LastIdx  int       `json:"lastidx"`
	K        string    `json:"k"`
	Entry    string    `json:"entry"`
	From     int       `json:"from"`
	Stop     []int     `json:"stop"`
	Pan      int       `json:"pan"`
	Pv       string    `json:"pv"`
	Log      [][]int   `json:"log"`
	Wrote    bool      `json:"wrote"`
	XLog     [][]int   `json:"xlog"`
	Closed   string    `json:"closed"`
	Escaped  bool      `json:"escaped"`
}

type PipeResult struct {
	ID         string         `json:"id"`
	Events     []PipeEvent    `json:"events"`
	Fails      []Fail         `json:"fails"`
	HarnessErr string         `json:"harness_err,omitempty"`
	Diverged   int            `json:"diverged"`
	Actions    map[string]int `json:"actions"`
}

var kindsOf = map[string]string{
	"A": "A", "R": "R", "W": "W", "X": "X", "I": "I", "E": "E",
	"RW": "RW", "ARI": "ARI", "AWI": "AWI", "ALL": "ARWXIE", "RE": "RE", "WX": "WX",
}

type pipeWorld struct {
	pl       netty.Pipeline
	ch       netty.Channel
	tr       *mock.Transport
	inst     []netty.Handler // index = instance id - 1
	types    []string
	stop     map[int]bool
	pan      int
	pv       string
	panicVal interface{}
	curKind  string
	log      [][]int
	xlog     [][]int
	inX      bool
	xvals    []error
	consumed bool
	ctxBad   string
}

// base is embedded by every probe type; the methods of the six interfaces are added by
// the concrete types below so that the pipeline's type assertions see exactly the subset.
type base struct {
	w  *pipeWorld
	id int
}

func (b *base) visit(kind string, ctx netty.HandlerContext) (forward bool) {
	w := b.w
	idx := -1
	func() {
		defer func() { recover() }()
		for i := 0; i < w.pl.Size(); i++ {
			if c := w.pl.ContextAt(i); c == ctx {
				idx = i
				break
			}
		}
	}()
	if idx < 0 {
		w.ctxBad = fmt.Sprintf("handler #%d invoked with a context that is at no pipeline position", b.id)
	} else if h, ok := ctx.Handler().(interface{ ident() int }); !ok || h.ident() != b.id {
		w.ctxBad = fmt.Sprintf("handler #%d invoked with the context of another handler (position %d)", b.id, idx)
	}
	if kind == "X" && w.inX {
		w.xlog = append(w.xlog, []int{idx, b.id})
	} else if kind == w.curKind {
		w.log = append(w.log, []int{idx, b.id})
	} else {
		// a side effect of the fired event (e.g. inactive delivered because the tail closed the channel)
		return true
	}
	if kind == w.curKind && !w.inX && w.pan == b.id {
		w.inX = true
		panic(w.panicVal)
	}
	return !w.stop[b.id]
}

func (b *base) ident() int { return b.id }

func (b *base) active(ctx netty.ActiveContext) {
	if b.visit("A", ctx) {
		ctx.HandleActive()
	}
}
func (b *base) read(ctx netty.InboundContext, m netty.Message) {
	if b.visit("R", ctx) {
		ctx.HandleRead(m)
	}
}
func (b *base) write(ctx netty.OutboundContext, m netty.Message) {
	if b.visit("W", ctx) {
		ctx.HandleWrite(m)
	}
}
func (b *base) exception(ctx netty.ExceptionContext, ex netty.Exception) {
	if b.w.inX {
		b.w.xvals = append(b.w.xvals, ex)
	}
	if b.visit("X", ctx) {
		ctx.HandleException(ex)
	}
}
func (b *base) inactive(ctx netty.InactiveContext, ex netty.Exception) {
	if b.visit("I", ctx) {
		ctx.HandleInactive(ex)
	}
}
func (b *base) event(ctx netty.EventContext, ev netty.Event) {
	if b.visit("E", ctx) {
		ctx.HandleEvent(ev)
	}
}

type hA struct{ *base }
type hR struct{ *base }
type hW struct{ *base }
type hX struct{ *base }
type hI struct{ *base }
type hE struct{ *base }
type hRW struct{ *base }
type hARI struct{ *base }
type hAWI struct{ *base }
type hALL struct{ *base }
type hRE struct{ *base }
type hWX struct{ *base }

func (h hA) HandleActive(c netty.ActiveContext)                          { h.active(c) }
func (h hR) HandleRead(c netty.InboundContext, m netty.Message)          { h.read(c, m) }
func (h hW) HandleWrite(c netty.OutboundContext, m netty.Message)        { h.write(c, m) }
func (h hX) HandleException(c netty.ExceptionContext, e netty.Exception) { h.exception(c, e) }
func (h hI) HandleInactive(c netty.InactiveContext, e netty.Exception)   { h.inactive(c, e) }
func (h hE) HandleEvent(c netty.EventContext, e netty.Event)             { h.event(c, e) }

func (h hRW) HandleRead(c netty.InboundContext, m netty.Message)   { h.read(c, m) }
func (h hRW) HandleWrite(c netty.OutboundContext, m netty.Message) { h.write(c, m) }

func (h hARI) HandleActive(c netty.ActiveContext)                        { h.active(c) }
func (h hARI) HandleRead(c netty.InboundContext, m netty.Message)        { h.read(c, m) }
func (h hARI) HandleInactive(c netty.InactiveContext, e netty.Exception) { h.inactive(c, e) }

func (h hAWI) HandleActive(c netty.ActiveContext)                        { h.active(c) }
func (h hAWI) HandleWrite(c netty.OutboundContext, m netty.Message)      { h.write(c, m) }
func (h hAWI) HandleInactive(c netty.InactiveContext, e netty.Exception) { h.inactive(c, e) }

func (h hALL) HandleActive(c netty.ActiveContext)                          { h.active(c) }
func (h hALL) HandleRead(c netty.InboundContext, m netty.Message)          { h.read(c, m) }
func (h hALL) HandleWrite(c netty.OutboundContext, m netty.Message)        { h.write(c, m) }
func (h hALL) HandleException(c netty.ExceptionContext, e netty.Exception) { h.exception(c, e) }
func (h hALL) HandleInactive(c netty.InactiveContext, e netty.Exception)   { h.inactive(c, e) }
func (h hALL) HandleEvent(c netty.EventContext, e netty.Event)             { h.event(c, e) }

func (h hRE) HandleRead(c netty.InboundContext, m netty.Message) { h.read(c, m) }
func (h hRE) HandleEvent(c netty.EventContext, e netty.Event)    { h.event(c, e) }

func (h hWX) HandleWrite(c netty.OutboundContext, m netty.Message)        { h.write(c, m) }
func (h hWX) HandleException(c netty.ExceptionContext, e netty.Exception) { h.exception(c, e) }

func newProbe(w *pipeWorld, t string, id int) netty.Handler {
	b := &base{w: w, id: id}
	switch t {
	case "A":
		return hA{b}
	case "R":
		return hR{b}
	case "W":
		return hW{b}
	case "X":
		return hX{b}
	case "I":
		return hI{b}
	case "E":
		return hE{b}
	case "RW":
		return hRW{b}
	case "ARI":
		return hARI{b}
	case "AWI":
		return hAWI{b}
	case "ALL":
		return hALL{b}
	case "RE":
		return hRE{b}
	case "WX":
		return hWX{b}
	}
	panic("unknown probe type " + t)
}

func (w *pipeWorld) order() []int {
	out := []int{}
	for i := 1; i < w.pl.Size()-1; i++ {
		out = append(out, w.identAt(i))
	}
	return out
}

// identAt: instance id of the handler at pipeline index i; negative codes for a missing context
// (-99), a foreign handler (-98) or a runtime fault inside the pipeline (-97)
func (w *pipeWorld) identAt(i int) (id int) {
	defer func() {
		if r := recover(); r != nil {
			id = -97
		}
	}()
	c := w.pl.ContextAt(i)
	if c == nil {
		return -99
	}
	if h, ok := c.Handler().(interface{ ident() int }); ok {
		return h.ident()
	}
	return -98
}

func hasKind(t, k string) bool {
	for _, c := range kindsOf[t] {
		if string(c) == k {
			return true
		}
	}
	return false
}

func makePanicVal(pv string, n int) (val interface{}, match func(error) bool) {
	switch pv {
	case "str":
		msg := fmt.Sprintf("boom-%d", n)
		return msg, func(e error) bool { return e != nil && e.Error() == msg }
	case "rt":
		return nil, func(e error) bool { _, ok := e.(runtime.Error); return ok }
	case "netto":
		ne := &mock.TimeoutErr{Msg: fmt.Sprintf("timeout-%d", n)}
		return ne, func(e error) bool { return e == error(ne) }
	case "netfatal":
		ne := &mock.NetErr{Msg: fmt.Sprintf("reset-%d", n)}
		return ne, func(e error) bool { return e == error(ne) }
	default:
		er := fmt.Errorf("err-%d", n)
		return er, func(e error) bool { return e == er }
	}
}

func runPipeCase(c *PipeCase) *PipeResult {
	res := &PipeResult{ID: c.ID, Fails: []Fail{}, Actions: map[string]int{}}
	// the tail handler prints to stderr when an exception reaches it
	if os.Getenv("VERIF_STDERR") == "" {
		if devnull, err := os.OpenFile(os.DevNull, os.O_WRONLY, 0); err == nil {
			syscall.Dup2(int(devnull.Fd()), 2)
		}
	}
	w := &pipeWorld{stop: map[int]bool{}}
	netty.VerifHook = nil
	w.tr = mock.NewTransport(nil)
	w.pl = netty.NewPipeline()
	// attach the channel without running the read loop: the executor holds the loop, so
	// ServeChannel stays parked waiting for the active signal (the loop itself is the
	// subject of Channel.tla; its per-invocation recover scope is entered via VerifInvokeMethod)
	parentCtx, parentCancel := context.WithCancel(context.Background())
	defer parentCancel()
	pcancelled := false
	w.ch = netty.NewChannel()(1, parentCtx, w.pl, w.tr, holdExecutor{})
	go w.pl.ServeChannel(w.ch)
	for i := 0; w.pl.Channel() == nil; i++ {
		runtime.Gosched()
		if i > 1000000 {
			res.HarnessErr = "channel was not attached to the pipeline"
			return res
		}
	}
	failed := map[string]bool{}
	fail := func(prop, key, msg string, step int) {
		if !failed[prop+key] {
			failed[prop+key] = true
			res.Fails = append(res.Fails, Fail{Prop: prop, Key: key, Msg: msg, Step: step})
		}
	}
	rnd := rand.New(rand.NewSource(c.Seed))
	ops := append([]PipeOp(nil), c.Ops...)
	closed := false
	nfire := 0
	var keptHs []netty.Handler // the slice the application retained from its last building call
	var keptRefs []PipeRef     // ... and what it holds, as references to existing instances
	genRandom := func() PipeOp {
		ninst := len(w.inst)
		size := w.pl.Size()
		r := rnd.Intn(10)
		mkrefs := func() []PipeRef {
			n := 1 + rnd.Intn(c.MaxPerOp)
			var refs []PipeRef
			nn := ninst
			for i := 0; i < n; i++ {
				if nn < c.MaxInst && (ninst == 0 || rnd.Intn(4) != 0) {
					refs = append(refs, PipeRef{New: true, T: c.Types[rnd.Intn(len(c.Types))], I: 1})
					nn++
				} else if ninst > 0 {
					k := 1 + rnd.Intn(ninst)
					refs = append(refs, PipeRef{New: false, T: w.types[k-1], I: k})
				}
			}
			return refs
		}
		if c.Panics && !pcancelled && !closed && rnd.Intn(12) == 0 {
			return PipeOp{Op: "PCancel"}
		}
		if r < 3 && len(keptRefs) >= 2 && size < 14 && rnd.Intn(4) == 0 {
			// the application uses its retained handler list again
			op := PipeOp{Op: []string{"AddFirst", "AddLast", "AddHandler"}[rnd.Intn(3)], Refs: keptRefs, Reuse: true}
			if op.Op == "AddHandler" {
				op.Pos = rnd.Intn(size+2) - 1
			}
			return op
		}
		switch {
		case r < 3 && (ninst < c.MaxInst || ninst > 0):
			refs := mkrefs()
			if len(refs) == 0 {
				return PipeOp{Op: "Query", X: 1}
			}
			switch rnd.Intn(3) {
			case 0:
				return PipeOp{Op: "AddFirst", Refs: refs}
			case 1:
				return PipeOp{Op: "AddLast", Refs: refs}
			default:
				return PipeOp{Op: "AddHandler", Pos: rnd.Intn(size+2) - 1, Refs: refs}
			}
		case r < 4:
			return PipeOp{Op: "Query", X: 1 + rnd.Intn(minInt(ninst+1, c.MaxInst))}
		default:
			if closed {
				return PipeOp{Op: "Query", X: 1 + rnd.Intn(minInt(ninst+1, c.MaxInst))}
			}
			kinds := []string{"A", "R", "W", "X", "I", "E"}
			op := PipeOp{Op: "Fire", K: kinds[rnd.Intn(6)], Entry: "pl", Pv: "err", Stop: []int{}}
			switch rnd.Intn(4) {
			case 1:
				if op.K == "W" || op.K == "E" {
					op.Entry = "ch"
				}
			case 2:
				if op.K == "W" || op.K == "E" {
					op.Entry = "ctx"
					op.From = rnd.Intn(size)
				}
			case 3:
				if op.K == "R" || op.K == "A" {
					op.Entry = "loop"
				}
			}
			for i := 1; i <= ninst; i++ {
				if rnd.Intn(3) == 0 {
					op.Stop = append(op.Stop, i)
				}
			}
			if c.Panics && op.Entry != "pl" && op.K != "X" && op.K != "I" && ninst > 0 && rnd.Intn(2) == 0 {
				p := 1 + rnd.Intn(ninst)
				inStop := false
				for _, x := range op.Stop {
					if x == p {
						inStop = true
					}
				}
				if !inStop {
					op.Pan = p
					op.Pv = []string{"err", "str", "rt", "netto", "netfatal"}[rnd.Intn(5)]
				}
			}
			return op
		}
	}
	total := len(ops) + c.Random
	for step := 0; step < total; step++ {
		var op PipeOp
		if step < len(ops) {
			op = ops[step]
		} else {
			op = genRandom()
		}
		res.Actions[op.Op]++
		ev := PipeEvent{Op: op.Op, Pos: op.Pos, Refs: op.Refs, X: op.X, K: op.K, Entry: op.Entry, From: op.From,
			Stop: op.Stop, Pan: op.Pan, Pv: op.Pv, Log: [][]int{}, XLog: [][]int{}, Order: []int{}}
		if ev.Stop == nil {
			ev.Stop = []int{}
		}
		if ev.Refs == nil {
			ev.Refs = []PipeRef{}
		}
		switch op.Op {
		case "PCancel":
			if pcancelled || closed {
				res.Diverged++
				continue
			}
			pcancelled = true
			parentCancel()
		case "AddFirst", "AddLast", "AddHandler":
			var hs []netty.Handler
			ninst := len(w.inst)
			ok := true
			for _, r := range op.Refs {
				if r.New {
					ninst++
					h := newProbe(w, r.T, ninst)
					w.inst = append(w.inst, h)
					w.types = append(w.types, r.T)
					hs = append(hs, h)
				} else if r.I >= 1 && r.I <= len(w.inst) {
					hs = append(hs, w.inst[r.I-1])
				} else {
					ok = false
				}
			}
			if !ok {
				res.Diverged++
				continue
			}
			if op.Reuse && keptHs != nil && len(keptHs) == len(hs) {
				hs = keptHs
			} else {
				keptHs = hs
				keptRefs = nil
				for _, h := range hs {
					hi := h.(interface{ ident() int }).ident()
					keptRefs = append(keptRefs, PipeRef{New: false, T: w.types[hi-1], I: hi})
				}
			}
			func() {
				defer func() {
					if r := recover(); r != nil {
						ev.Rejected = true
						keptHs, keptRefs = nil, nil
						// a rejected call must not have registered its new instances
						n := 0
						for _, rf := range op.Refs {
							if rf.New {
								n++
							}
						}
						w.inst = w.inst[:len(w.inst)-n]
						w.types = w.types[:len(w.types)-n]
					}
				}()
				switch op.Op {
				case "AddFirst":
					w.pl.AddFirst(hs...)
				case "AddLast":
					w.pl.AddLast(hs...)
				default:
					w.pl.AddHandler(op.Pos, hs...)
				}
			}()
			ev.Order = w.order()
			ev.Size = w.pl.Size()
		case "Query":
			var target netty.Handler
			if op.X >= 1 && op.X <= len(w.inst) {
				target = w.inst[op.X-1]
			}
			cmp := func(h netty.Handler) bool {
				if target == nil {
					return false
				}
				hi, ok := h.(interface{ ident() int })
				return ok && hi.ident() == op.X
			}
			ev.Size = w.pl.Size()
			func() {
				defer func() {
					if r := recover(); r != nil {
						ev.First, ev.LastIdx = -97, -97
						fail("C03", "runtime-fault/query", fmt.Sprintf("IndexOf/LastIndexOf failed with %v", r), step)
					}
				}()
				ev.First = w.pl.IndexOf(cmp)
				ev.LastIdx = w.pl.LastIndexOf(cmp)
			}()
			ev.Order = w.order()
			if w.pl.ContextAt(-1) != nil || w.pl.ContextAt(ev.Size) != nil {
				fail("C03", "context-at-out-of-range", "ContextAt(-1) or ContextAt(Size) is not nil", step)
			}
			for i := 0; i < ev.Size; i++ {
				if w.identAt(i) == -99 || w.identAt(i) == -97 {
					fail("C03", "context-at-nil", fmt.Sprintf("ContextAt(%d) is nil with Size %d", i, ev.Size), step)
				}
			}
		case "Fire":
			if closed {
				res.Diverged++
				continue
			}
			nfire++
			w.stop = map[int]bool{}
			for _, x := range op.Stop {
				w.stop[x] = true
			}
			w.pan, w.pv, w.curKind = op.Pan, op.Pv, op.K
			var match func(error) bool
			w.panicVal, match = makePanicVal(op.Pv, nfire)
			if op.Pv == "rt" {
				w.panicVal = func() (v interface{}) {
					defer func() { v = recover() }()
					var m map[string]int
					m["x"] = 1
					return nil
				}()
			}
			w.log, w.xlog, w.inX, w.xvals, w.consumed, w.ctxBad = [][]int{}, [][]int{}, false, nil, false, ""
			before, _, _ := w.tr.Lens()
			firedEx := fmt.Errorf("fired-ex-%d", nfire)
			msg := []byte(fmt.Sprintf("msg-%d;", nfire))
			func() {
				defer func() {
					if r := recover(); r != nil {
						ev.Escaped = true
					}
				}()
				switch op.Entry {
				case "pl":
					switch op.K {
					case "A":
						w.pl.FireChannelActive()
					case "R":
						w.pl.FireChannelRead("read-msg")
					case "W":
						w.pl.FireChannelWrite(msg)
					case "X":
						w.pl.FireChannelException(firedEx)
					case "I":
						// the payload is data, not routing: every other inactive event carries a nil exception (Close(nil))
						if (int64(nfire)+c.Seed)%2 == 0 {
							w.pl.FireChannelInactive(nil)
						} else {
							w.pl.FireChannelInactive(firedEx)
						}
					case "E":
						w.pl.FireChannelEvent("event")
					}
				case "ch":
					if op.K == "W" {
						w.ch.Write(msg)
					} else {
						w.ch.Trigger("event")
					}
				case "ctx":
					cx := w.pl.ContextAt(op.From)
					if cx == nil {
						panic("no context")
					}
					if op.K == "W" {
						cx.Write(msg)
					} else {
						cx.Trigger("event")
					}
				case "loop":
					if op.K == "A" {
						netty.VerifInvokeMethod(w.ch, w.pl.FireChannelActive)
					} else {
						netty.VerifInvokeMethod(w.ch, func() { w.pl.FireChannelRead("read-msg") })
					}
				}
			}()
			if res.HarnessErr != "" {
				break
			}
			after, _, _ := w.tr.Lens()
			ev.Wrote = after > before
			ev.Log, ev.XLog = w.log, w.xlog
			if w.ctxBad != "" {
				fail("C03", "context-binding", w.ctxBad, step)
			}
			if !w.ch.IsActive() {
				closed = true
				_, cerr := w.ch.Write1([]byte{0})
				switch {
				case cerr == firedEx:
					ev.Closed = "ex"
				case match != nil && match(cerr):
					ev.Closed = "panic"
				default:
					ev.Closed = fmt.Sprintf("other:%v", cerr)
				}
			}
			if op.Pan != 0 {
				for _, xe := range w.xvals {
					if !match(xe) {
						fail("C07", "exception-value/"+op.Pv, fmt.Sprintf("panic value kind %s was delivered as exception %v", op.Pv, xe), step)
					}
				}
				if ev.Escaped {
					fail("C07", "escaped/"+op.Entry+"/"+op.K, fmt.Sprintf("a panic in handler #%d during %s via %s escaped into the caller", op.Pan, op.K, op.Entry), step)
				}
			}
			var ne interface{ Timeout() bool }
			_ = errors.As
			_ = ne
		}
		if res.HarnessErr != "" {
			break
		}
		res.Events = append(res.Events, ev)
	}
	sort.Slice(res.Fails, func(i, j int) bool { return res.Fails[i].Step < res.Fails[j].Step })
	// let the read loop go
	w.tr.G = nil
	if w.ch.IsActive() {
		w.ch.Close(nil)
	}
	return res
}

type holdExecutor struct{}

func (holdExecutor) Exec(func()) {}

func minInt(a, b int) int {
	if a < b {
		return a
	}
	return b
}
