#!/usr/bin/env python3
"""Regenerates /verif/MANIFEST.json from the table below (single source of truth)."""
import json, os
HERE = os.path.dirname(os.path.dirname(os.path.abspath(__file__)))
props = [json.loads(l) for l in open(os.path.join(HERE, "properties.jsonl"))]

TRUST = ("TLC 1.8; Go toolchain/runtime; the gate scheduler (goroutine-status based parking detection), mock transport/"
         "executor and projection functions of /verif/harness; hook placement in /repo (build tag verif); bounded constants")

CLAIMED = {
    "C01": dict(engine="channel", design="3/C01", technique="TLA+ model checking (TLC) of Channel.tla + edge-cover replay and trace validation on the real channel",
                text="TLC checks C01_Prefix/NoDup/ErrNoBytes/RealTime in every reachable state of Channel.tla for 2-3 writers x 1-2 writes, queue 1-3, "
                     "both queue modes and the synchronous channel; every transition of small state graphs is replayed on the real channel through gates, "
                     "sampled schedules of larger configurations (up to 6 writers, all boundary payload sizes) are recorded and validated against the spec by TLC, "
                     "and a byte-level oracle on the recording transport decides the verdict after every step."),
    "C02": dict(engine="channel", design="3/C02", technique="TLA+ model checking (TLC) incl. liveness under fairness + Apalache inductive invariant + TLAPS proof of the unbounded counting abstraction (TLC-checked refinement) + edge-cover replay to quiescence on the real channel",
                text="TLC checks the safety core (somebody is always committed to re-inspect a non-empty queue), the quiescent form and the liveness property "
                     "C02_Live under weak fairness; the lost-wake-up window (release/re-check/re-CAS against enqueue/CAS) is replayed on the real code in every "
                     "position of the bounded graph and every replay is run to quiescence where accepted = transmitted = flushed is checked. For any number of "
                     "writers and any queue length the safety core is an inductive invariant of Ownership.tla (Apalache, and proved with TLAPS in OwnershipProof.tla); Channel.tla refines it (TLC, ChannelOwn.tla) and the "
                     "invariant is also evaluated on every recorded real execution."),
    "C05": dict(engine="channel", design="3/C05", technique="TLA+ model checking (TLC) of the close/read-loop/serve protocol + replay and trace validation on the real channel",
                text="TLC checks active-once/before-first-read/before-serve-returns, sequential reads, transport closed once, inactive once with the winning "
                     "Close's error, closed-after-any-Close-returns and read-loop termination (liveness) for 1-3 concurrent closers (distinct errors, incl. nil), "
                     "read and write faults, sync and async channels; graph edges are replayed on the real channel with probe handlers and a counting mock transport."),
    "C06": dict(engine="channel", design="3/C06", technique="TLA+ model checking (TLC) of Close vs sender release window + counterexample/edge-cover replay on the real channel",
                text="TLC checks C06_Graceful/C06_NoMidBatch in every state and termination of Close under fairness (both wait modes, with and without transport faults); "
                     "the specification of the unrepaired Close (FixDrain=FALSE) must still produce the release-window counterexample, which is replayed on the current "
                     "tree each run; the oracle compares what was flushed at the moment of transport.Close with the payloads accepted before Close was invoked."),
    "C11": dict(engine="channel", design="3/C11", technique="TLA+ model checking (TLC) of all write entry points against Close + replay on the real channel",
                text="TLC checks C11_FailAfterClose for every entry point (Write, Write1, Writev, CtxWrite1, CtxWritev, Writer) x sync/async x Close(nil|err) x all "
                     "interleavings with one or two closers; every entry point is additionally exercised after a completed Close many times (both select outcomes); "
                     "oracle: (n, err) of calls begun after a Close returned, and the transport log."),
    "C18": dict(engine="channel", design="3/C18", technique="TLA+ model checking (TLC) of queue back-pressure + parked-goroutine observation on the real channel",
                text="TLC checks never-blocks (non-blocking mode), no-space-only-when-full (action property), the accepted-but-unsent bound, cancel/close-no-bytes and "
                     "that blocked writers eventually return (liveness); on the real code the scheduler reads goroutine wait states, so 'parked in select' is observed, not timed."),
    "C19": dict(engine="pool", design="3/C19", technique="TLA+ model checking (TLC) of Pool.tla Get/Put histories + replay and trace validation on the real pbytes/pbuffer pools",
                text="TLC checks C19_Cap/C19_ShardCap/C19_Exclusive and the pmath operator table over all Get/Put/Put-foreign histories up to the bound for the default "
                     "and several small custom pools; state-graph edge covers and random histories run on the real pools with buffers tagged by identity and are "
                     "validated against the spec; pmath and pool parameters are compared value by value with the model for 0..2^17+2 and around every power of two."),
    "C03": dict(engine="pipeline", design="3/C03", technique="TLA+ reference model Pipeline.tla; TLC trace validation of operation programs executed on the real pipeline (graph edge cover + random programs)",
                text="Pipeline.tla models the handler list, the position rules of AddFirst/AddLast/AddHandler, the queries and both traversal directions; TLC checks the "
                     "reference's own consistency and then validates, step by step, recorded executions of building/query/fire programs on a real pipeline+channel: "
                     "every edge of the small-palette state graph and random programs over 12 handler types (all interface subsets used by the framework, repeated instances)."),
    "C07": dict(engine="pipeline+channel", design="3/C07", technique="TLA+ reference model of recover scopes (Pipeline.tla) + Channel.tla fault actions; TLC trace validation and model checking",
                text="Panic injection at every handler position x event kind x entry point (Channel.Write/Trigger, ctx.Write/Trigger, read-loop scope) x panic value kind x "
                     "forwarding/swallowing exception handlers is executed on the real pipeline and validated by TLC against Pipeline.tla (exception delivery order, once, "
                     "close-or-not, no escape); transport write/flush/read failures are fault actions of Channel.tla (model checked incl. liveness, replayed with faults)."),
    "C09": dict(engine="channel", design="3/C09", technique="TLA+ model checking (TLC) of message = sequence of low-level writes + counterexample replay on the real channel, head handler and shipped codecs",
                text="Channel.tla models a message as the sequence of low-level writes its carrier produces; C09_Contiguous is checked for single-write carriers ([]byte, [][]byte, "
                     "*bytes.Buffer: must hold, any failure is a violation) and for multi-write carriers (chunked io.Reader, multi-write io.WriterTo), where TLC's interleaving "
                     "counterexample is replayed on the real code and reported as a known finding per carrier; text+delimiter codec pipelines are run on sync and queued channels "
                     "and the wire is parsed back into frames."),
    "C13": dict(engine="bootstrap", design="3/C13", technique="TLA+ model checking (TLC) of Bootstrap.tla (listeners, accept loops, Connect, Shutdown, holder) + edge-cover replay and trace validation on the real bootstrap",
                text="TLC checks C13_Final (context cancelled, no acceptor open, no loop left accepting, loops end with ErrServerClosed, every channel closed with exactly one "
                     "transport close and one inactive) in every quiescent state after Shutdown, and that everything comes to rest (liveness), for programs of Listen/Async, "
                     "Connect and Listener.Close with Shutdown at every point; schedules are replayed on the real bootstrap with a gated mock factory/acceptor/executor, "
                     "recorded executions are validated by TLC; the unrepaired specification must still yield the leaked-acceptor counterexample, which is replayed each run."),
    "C04": dict(engine="frame", design="3/C04", technique="TLA+ transcription of the frame decoders/encoders (Frame.tla) checked exhaustively by TLC + trace validation of the real codecs under fragmentation",
                text="Frame.tla transcribes the decoders (header parse, validation ladder, lazy exact-length body, delimiter scan) and the encoders' header arithmetic including "
                     "field capacity; TLC checks round trip, exact consumption and encoder honesty over 22 configurations x payload-length sequences x end-of-stream positions; "
                     "the real codecs run the same cases under 1-byte/random/boundary fragmentation, both byte orders and four carrier types, every decoder invocation is "
                     "validated against the spec by TLC and an independent byte-level oracle compares delivered payloads and consumed bytes."),
    "C08": dict(engine="frame", design="3/C08", technique="TLA+ transcription of the frame decoders with end-of-stream positions and adversarial headers (TLC) + trace validation, EOF-loop scenario and adversarial streams on the real decoders",
                text="TLC checks delivered-complete, within-max, no-phantom, bounded buffering and progress for every cut position (before/inside/after header, inside body) and "
                     "adversarial header values; the real decoders are validated invocation by invocation, run through a real channel whose peer closed (must become inactive, "
                     "not deliver endless messages) and fed random adversarial streams (no runtime fault, progress, maximum respected)."),
    "C17": dict(engine="wire", design="3/C17", technique="TLA+ exact model of bufio under the four transport wrappers (Wire.tla) checked by TLC + replay and trace validation on transport.NewTransport",
                text="Wire.tla models bufio.Writer/Reader exactly (direct write of large payloads on an empty buffer, fill-and-flush, one fill per read, minimum reader size) for "
                     "buffered-both/read-only/write-only/raw variants; TLC checks no-reorder, flushed-means-delivered and read-no-loss over all operation sequences at the bound; "
                     "sequences run on the real wrappers over a scripted net.Conn, the segments of every connection write are validated by TLC and bytes compared with the streams."),
    "C10": dict(engine="channel", design="3/C10", technique="TLA+ model checking (TLC) of packet-buffer ownership in Channel.tla (clone, recycle, pool users) + replay on the real channel with buffer and pool scribbling",
                text="Channel.tla tracks which packet buffers are pooled and which were overwritten (callers reusing their buffers, other pool users); TLC checks C10_Snapshot and "
                     "C10_Exclusive, and the two specification mutants (no clone; recycle before Writev) must violate them (anti-vacuity); on the real channel every caller "
                     "overwrites its buffer right after each call and a pool user obtains and overwrites buffers of every size class after every scheduler step (GOMAXPROCS(1)); "
                     "checksummed payloads at the recording transport decide."),
    "C14": dict(engine="carrier", design="3/C14", technique="TLA+ model of ReadFrom's chunk loop and ByteReader over scripted readers (Carrier.tla) checked by TLC + complete replay of the bounded script space and trace validation",
                text="Carrier.tla models Channel.ReadFrom and utils.ByteReader over readers that return arbitrary (n, err) results (short reads, data together with EOF, empty "
                     "reads, failures); TLC checks exactness for every script of <= 3 results; all those scripts run on the real code (sync and queued channels) and are validated "
                     "by TLC; every head-handler carrier type x boundary size x channel mode and the conversion helpers over fragmenting readers are compared byte for byte."),
    "C20": dict(engine="idle", design="3/C20", technique="TLA+ model checking (TLC) of Idle.tla (discrete clock, timer, callback sections) + timed replay with hook-gated callback sections and one-sided wall-clock oracles on the real idle handlers",
                text="TLC checks not-early, timer persistence while active, no timing after inactive and at most the in-flight callbacks delivering afterwards, for reads/writes at every "
                     "tick offset and inactive at every point of a running callback; state-graph paths run on the real handlers (60-75 ms periods) with the three callback sections "
                     "gated by hooks and are validated by TLC against the logical clock; ungated random timing scenarios, silence (re-delivery) and panicking event handlers are "
                     "judged by oracles that use wall-clock time only in the sound direction."),
    "C15": dict(engine="http", design="3/C15", technique="TLA+ model of the HTTP server codec's per-connection loop and response-writer state machine (Http.tla) checked by TLC + trace validation of the real codec with net/http as projection",
                text="Http.tla models the request loop over a lazily consumed stream, the adapter's deferred finish and the response writer (header, chunked, pooled buffer, close "
                     "decision); TLC checks one-response-per-request-in-order, the keep-alive rule and close-after-flush over all sequences of <= 3 requests x handler programs; "
                     "sampled sequences (all shapes, sizes around the 2048-byte buffer, four fragmentations, sync and queued channels) run through the real ServerCodec + Handler, "
                     "responses are parsed with net/http and each request's outcome is validated by TLC."),
}
NA = {}
for p in props:
    if p["id"] not in CLAIMED:
        NA[p["id"]] = "check not built yet in this revision (see DESIGN.md section 3 for the plan)"
NA["C12"] = ("data-race freedom is a property of individual memory accesses below the atomic-action abstraction of a TLA+ specification; "
             "gates serialise execution and would hide races (DESIGN.md section 4)")
NA["C16"] = ("stateless text/JSON encode-decode fidelity over unbounded strings has no state, schedule or history for TLC to explore "
             "(DESIGN.md section 4)")

checks = []
for pid in sorted(CLAIMED):
    c = CLAIMED[pid]
    checks.append({
        "property_id": pid,
        "quick_cmd": "./check %s --tier quick" % pid,
        "thorough_cmd": "./check %s --tier thorough" % pid,
        "evidence_file": "/verif/evidence/%s.json" % pid,
        "replay_cmd_template": "./check %s --replay {path}" % pid,
        "engine": c["engine"],
        "level_claimed": {"category": "model_checking", "text": c["text"], "design_ref": c["design"]},
        "level_note": TRUST,
        "technique": c["technique"],
    })

engines = {}
for pid, c in CLAIMED.items():
    engines.setdefault(c["engine"], []).append(pid)
ENG = {
    "http": ("spec/Http.tla + spec/TraceHttp.tla + harness/cmd/driver/http.go", "TLA+ model of the HTTP server codec; TLC exhaustive over request/program sequences; trace validation on the real codec"),
    "idle": ("spec/Idle.tla + spec/TraceIdle.tla + harness/cmd/driver/idle.go", "TLA+ spec of the idle handlers' timer protocol; timed, hook-gated replay and trace validation; one-sided wall-clock oracles"),
    "carrier": ("spec/Carrier.tla + spec/TraceCarrier.tla + harness/cmd/driver/carrier.go", "TLA+ model of ReadFrom/ByteReader over scripted readers; complete replay of the bounded script space"),
    "wire": ("spec/Wire.tla + spec/TraceWire.tla + harness/cmd/driver/wire.go", "exact bufio model; TLC exhaustive sequences; replay + trace validation on the real transport wrappers"),
    "frame": ("spec/Frame.tla + spec/TraceFrame.tla + harness/cmd/driver/frame.go", "TLA+ transcription of the frame codecs; TLC exhaustive checking over configurations/lengths/cut points; trace validation of the real codecs"),
    "bootstrap": ("spec/Bootstrap.tla + spec/TraceBootstrap.tla + harness/cmd/driver/boot.go", "TLA+ spec of the bootstrap; TLC exhaustive checking; replay + trace validation through the gate scheduler"),
    "pipeline": ("spec/Pipeline.tla + spec/TracePipeline.tla + harness/cmd/driver/pipe.go", "TLA+ reference model of the handler pipeline; TLC trace validation of programs run on the real pipeline"),
    "pipeline+channel": ("spec/Pipeline.tla + spec/Channel.tla + harness/cmd/driver/{pipe,chan}.go", "recover scopes as reference model + transport fault actions"),
    "pool": ("spec/Pool.tla + spec/TracePool.tla + harness/cmd/driver/pool.go", "TLA+ spec of the size-class pool; TLC exhaustive histories; replay + trace validation on the real pools"),
    "channel": ("spec/Channel.tla + spec/TraceChannel.tla + harness/cmd/driver/chan.go", "TLA+ spec of writer/sender/closer/reader protocol; TLC exhaustive checking; state-graph edge-cover replay through a gate scheduler; TLC trace validation of recorded executions"),
}
manifest = {
    "version": 1,
    "setup_cmd": "cd harness && GOFLAGS=-mod=mod GOPROXY=off GOSUMDB=off GOTOOLCHAIN=local go build -tags verif -o bin/driver ./cmd/driver",
    "hooks": {
        "guard": "verif",
        "enable": "go build -tags verif (the harness module replaces github.com/go-netty/go-netty with /repo)",
        "baseline_off_cmd": "cd /repo && GOFLAGS=-mod=mod GOPROXY=off GOSUMDB=off go test -vet=off -count=1 ./...",
        "source_commits": json.load(open(os.path.join(HERE, "tools", "hook_commits.json"))),
        "add_only": True,
    },
    "engines": [{"name": k, "path": ENG[k][0], "serves_properties": sorted(v), "kind_free_text": ENG[k][1]} for k, v in sorted(engines.items())],
    "checks": checks,
    "notes": "All checks: ./check <id> [--tier quick|thorough]; exit 0 held / 1 VIOLATION / 2 inconclusive. Known findings: KNOWN_FINDINGS.json.",
    "not_applicable": [{"property_id": k, "reason": NA[k]} for k in sorted(NA)],
}
json.dump(manifest, open(os.path.join(HERE, "MANIFEST.json"), "w"), indent=1)
print("MANIFEST.json: %d checks, %d not_applicable" % (len(checks), len(NA)))
