---------------------------- MODULE TracePipeline ----------------------------
(* Trace validation: operations executed on the real pipeline (+ channel) with their
   observed results must be steps of Pipeline!Next with exactly those results. *)
EXTENDS Pipeline, Json, IOUtils

Trace == ndJsonDeserialize(IOEnv.TRACE_FILE)
VARIABLE l

SeqToSet(s) == {s[i] : i \in 1..Len(s)}

TraceInit == Init /\ l = 1 /\ TLCSet(1, 1)

Reset ==
    /\ hs' = <<>> /\ typeOf' = [i \in 1..MaxInst |-> ""] /\ ninst' = 0 /\ nops' = 0
    /\ closed' = "" /\ pcancel' = FALSE /\ last' = NoRes

BuildPost(e) ==
    IF "rejected" \in DOMAIN e /\ e.rejected
    THEN "rejected" \in DOMAIN last' /\ last'.rejected
    ELSE /\ "order" \in DOMAIN last' /\ last'.order = e.order /\ last'.size = e.size

TraceStep ==
    /\ l <= Len(Trace)
    /\ l' = l + 1
    /\ LET e == Trace[l] IN
       CASE e.op = "reset" -> Reset
         [] e.op = "PCancel" -> PCancel
         [] e.op = "AddFirst" -> AddFirst(e.refs) /\ BuildPost(e)
         [] e.op = "AddLast" -> AddLast(e.refs) /\ BuildPost(e)
         [] e.op = "AddHandler" -> AddHandler(e.pos, e.refs) /\ BuildPost(e)
         [] e.op = "Query" -> /\ Query(e.x)
                              /\ last'.size = e.size /\ last'.first = e.first /\ last'.lastidx = e.lastidx
                              /\ last'.order = e.order
         [] e.op = "Fire" -> /\ Fire(e.k, e.entry, e.from, SeqToSet(e.stop), e.pan, e.pv)
                             /\ last'.log = e.log /\ last'.wrote = e.wrote /\ last'.xlog = e.xlog
                             /\ last'.closed = e.closed /\ last'.escaped = e.escaped

TraceSpec == TraceInit /\ [][TraceStep]_<<vars, l>>
Mark == (l > TLCGet(1) => TLCSet(1, l)) /\ TRUE
TraceAccepted == PrintT(<<"HIGHWATER", TLCGet(1)>>) /\ TLCGet(1) = Len(Trace) + 1
=============================================================================
