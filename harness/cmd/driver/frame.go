package main

// Frame driver (C04, C08): encodes payloads with the real encoders, feeds the concatenated wire,
// cut at some position and fragmented in some way, to the real decoders, lets a consumer read
// every delivered message to its end, and records per decoder invocation what happened. The
// record is validated by TLC against Frame.tla; independent byte-level oracles decide C04/C08.

import (
	"bytes"
	"context"
	"encoding/binary"
	"fmt"
	"io"
	"io/ioutil"
	"math/rand"
	"runtime"
	"strings"
	"sync"
	"sync/atomic"
	"time"

	netty "github.com/go-netty/go-netty"
	"github.com/go-netty/go-netty/codec/frame"
	"github.com/go-netty/go-netty/utils"

	"verifharness/mock"
)

type FrameCfg struct {
	Kind  string `json:"kind"`
	W     int    `json:"w"`
	O     int    `json:"o"`
	A     int    `json:"a"`
	S     int    `json:"s"`
	Max   int    `json:"max"`
	EAdj  int    `json:"eadj"`
	EIncl bool   `json:"eincl"`
	Real  bool   `json:"real"`
	DL    int    `json:"dl"`
	FragM string `json:"frag"`
	Strip bool   `json:"strip"`
	N     int    `json:"n"`
}

type FrameCase struct {
	ID      string   `json:"id"`
	Cfg     FrameCfg `json:"cfg"`
	Ps      []int    `json:"ps"`
	Cut     int      `json:"cut"` // -1 = everything
	Raw     bool     `json:"raw"`
	HV      int      `json:"hv"`
	Body    int      `json:"body"`
	Frag    string   `json:"frag"` // one, rand, edges, whole
	Little  bool     `json:"little"`
	Carrier string   `json:"carrier"` // bytes string buffer reader
	Seed    int64    `json:"seed"`
	EOFLoop bool     `json:"eofloop"` // run through a real channel whose peer closed
	Fuzz    int      `json:"fuzz"`    // > 0: random adversarial streams (oracle only)
}

type FrameEvent struct {
	Case     string                 `json:"case,omitempty"`
	Op       string                 `json:"op"`
	Cfg      map[string]interface{} `json:"cfg,omitempty"`
	Ps       []int                  `json:"ps"`
	Cut      int                    `json:"cut"`
	Enc      [][]int                `json:"enc"`
	HV       int                    `json:"hv"`
	Body     int                    `json:"body"`
	Res      string                 `json:"res"`
	Len      int                    `json:"len"`
	Complete bool                   `json:"complete"`
	Consumed int                    `json:"consumed"`
	Why      string                 `json:"why"`
}

type FrameResult struct {
	ID         string         `json:"id"`
	Events     []FrameEvent   `json:"events"`
	Fails      []Fail         `json:"fails"`
	HarnessErr string         `json:"harness_err,omitempty"`
	Diverged   int            `json:"diverged"`
	Actions    map[string]int `json:"actions"`
	Frags      int            `json:"frags"`
}

func (c FrameCfg) tla() map[string]interface{} {
	switch c.Kind {
	case "lf":
		return map[string]interface{}{"kind": "lf", "w": c.W, "o": c.O, "a": c.A, "s": c.S, "max": c.Max, "eadj": c.EAdj, "eincl": c.EIncl, "real": c.Real}
	case "varint":
		return map[string]interface{}{"kind": "varint", "max": c.Max}
	case "delim":
		return map[string]interface{}{"kind": "delim", "max": c.Max, "dl": c.DL, "strip": c.Strip}
	case "varlen":
		return map[string]interface{}{"kind": "varlen", "max": c.Max, "frag": c.FragM}
	case "packet":
		return map[string]interface{}{"kind": "packet"}
	}
	return map[string]interface{}{"kind": "fixed", "n": c.N}
}

// fragReader serves a byte slice in prescribed fragments and then reports end of stream.
type fragReader struct {
	data        []byte
	pos         int
	cuts        map[int]bool // positions a read may not cross
	mode        string
	rnd         *rand.Rand
	reads       int
	eofWithData bool // the last bytes are returned together with io.EOF (allowed by the io.Reader contract)
}

func (r *fragReader) Read(p []byte) (int, error) {
	r.reads++
	if r.pos >= len(r.data) {
		return 0, io.EOF
	}
	n := len(p)
	if n > len(r.data)-r.pos {
		n = len(r.data) - r.pos
	}
	switch r.mode {
	case "one":
		n = 1
	case "rand":
		if n > 1 {
			n = 1 + r.rnd.Intn(minInt(n, 700))
		}
	case "edges":
		for i := 1; i <= n; i++ {
			if r.cuts[r.pos+i] {
				n = i
				break
			}
		}
	}
	if n == 0 {
		return 0, nil
	}
	copy(p, r.data[r.pos:r.pos+n])
	r.pos += n
	if r.eofWithData && r.pos >= len(r.data) {
		return n, io.EOF
	}
	return n, nil
}

// frameCtx is the handler context the codec under test runs in.
type frameCtx struct {
	onRead  func(netty.Message)
	onWrite func(netty.Message)
}

func (m frameCtx) Channel() netty.Channel           { return nil }
func (m frameCtx) Handler() netty.Handler           { return nil }
func (m frameCtx) Write(message netty.Message)      {}
func (m frameCtx) Close(err error)                  {}
func (m frameCtx) Trigger(event netty.Event)        {}
func (m frameCtx) Attachment() netty.Attachment     { return nil }
func (m frameCtx) SetAttachment(netty.Attachment)   {}
func (m frameCtx) HandleRead(message netty.Message) { m.onRead(message) }
func (m frameCtx) HandleWrite(message netty.Message) {
	m.onWrite(message)
}

func flatten(message netty.Message) ([]byte, error) {
	switch v := message.(type) {
	case []byte:
		return append([]byte(nil), v...), nil
	case [][]byte:
		var out []byte
		for _, b := range v {
			out = append(out, b...)
		}
		return out, nil
	case io.Reader:
		return ioutil.ReadAll(v)
	case string:
		return []byte(v), nil
	}
	return nil, fmt.Errorf("unexpected message type %T", message)
}

func buildCodec(c FrameCfg, little bool) (dec netty.InboundHandler, enc netty.OutboundHandler) {
	var order binary.ByteOrder = binary.BigEndian
	if little {
		order = binary.LittleEndian
	}
	switch c.Kind {
	case "lf":
		cd := frame.LengthFieldCodec(order, c.Max, c.O, c.W, c.A, c.S)
		dec = cd
		if c.EAdj == 0 && !c.EIncl {
			enc = cd
		} else {
			enc = frame.LengthFieldPrepender(order, c.W, c.EAdj, c.EIncl)
		}
	case "varint":
		cd := frame.VarintLengthFieldCodec(c.Max)
		dec, enc = cd, cd
	case "delim":
		cd := frame.DelimiterCodec(c.Max, frameDelim(c.DL), c.Strip)
		dec, enc = cd, cd
	case "fixed":
		cd := frame.FixedLengthCodec(c.N)
		dec, enc = cd, cd
	case "varlen":
		cd := frame.VariableLengthCodec(c.Max)
		dec, enc = cd, cd
	case "packet":
		cd := frame.PacketCodec(128)
		dec, enc = cd, cd
	}
	return
}

func packField(order binary.ByteOrder, w int, v int) []byte {
	b := make([]byte, w)
	switch w {
	case 1:
		b[0] = byte(v)
	case 2:
		order.PutUint16(b, uint16(v))
	case 4:
		order.PutUint32(b, uint32(v))
	case 8:
		order.PutUint64(b, uint64(v))
	}
	return b
}

func unpackField(order binary.ByteOrder, w int, b []byte) int {
	switch w {
	case 1:
		return int(b[0])
	case 2:
		return int(order.Uint16(b))
	case 4:
		return int(order.Uint32(b))
	}
	return int(order.Uint64(b))
}

// frameDelim: the delimiter of a configuration, made of the bytes 0 and 1 only (bodies use bytes >= 2 except where a
// proper prefix of the delimiter is planted on purpose). Lengths >= 3 use self-overlapping patterns (a proper prefix
// that is also a suffix of a longer prefix), the ones an incremental matcher without a correct failure function gets
// wrong when a body ends in part of the delimiter.
func frameDelim(dl int) string {
	switch dl {
	case 3:
		return "\x00\x00\x01"
	case 4:
		return "\x00\x01\x00\x00"
	case 5:
		return "\x00\x00\x01\x00\x01"
	}
	return strings.Repeat("\x00", dl-1) + "\x01"
}

func framePayload(rnd *rand.Rand, n int) []byte {
	b := make([]byte, n)
	rnd.Read(b)
	for i := range b {
		if b[i] < 2 { // keep delimiter bytes out of bodies
			b[i] += 2
		}
	}
	return b
}

func carrierOf(kind string, b []byte) netty.Message {
	switch kind {
	case "string":
		return string(b)
	case "buffer":
		return bytes.NewBuffer(append([]byte(nil), b...))
	case "reader":
		return bytes.NewReader(b)
	}
	return b
}

func runFrameCase(c *FrameCase) *FrameResult {
	res := &FrameResult{ID: c.ID, Fails: []Fail{}, Actions: map[string]int{}}
	failed := map[string]bool{}
	fail := func(prop, key, msg string, step int) {
		if !failed[prop+key] {
			failed[prop+key] = true
			res.Fails = append(res.Fails, Fail{Prop: prop, Key: key, Msg: msg, Step: step})
		}
	}
	if c.EOFLoop {
		runEOFLoop(c, res, fail)
		return res
	}
	if c.Fuzz > 0 {
		runFrameFuzz(c, res, fail)
		return res
	}
	rnd := rand.New(rand.NewSource(c.Seed))
	var order binary.ByteOrder = binary.BigEndian
	if c.Little {
		order = binary.LittleEndian
	}
	dec, enc := buildCodec(c.Cfg, c.Little)
	cf := c.Cfg
	// ---- encode
	var wire []byte
	type fr struct {
		start, hlen, size int
		payload           []byte
	}
	var frames []fr
	start := FrameEvent{Op: "start", Cfg: cf.tla(), Ps: c.Ps, Enc: [][]int{}}
	if start.Ps == nil {
		start.Ps = []int{}
	}
	if c.Raw {
		hl := cf.O + cf.W
		var hdr []byte
		if cf.Kind == "varint" {
			var tmp [binary.MaxVarintLen64]byte
			n := binary.PutUvarint(tmp[:], uint64(c.HV))
			hdr = tmp[:n]
			hl = n
		} else {
			hdr = append(framePayload(rnd, cf.O), packField(order, cf.W, c.HV)...)
		}
		body := framePayload(rnd, c.Body)
		wire = append(hdr, body...)
		frames = append(frames, fr{0, hl, len(wire), body})
		start = FrameEvent{Op: "raw", Cfg: cf.tla(), HV: c.HV, Body: c.Body, Ps: []int{}, Enc: [][]int{}}
	} else {
		// carrier "mreader": the application keeps the leading parts of all its payloads in one record buffer and
		// sends each payload as a multi-segment reader (leading part from the record, rest from elsewhere)
		var rec []byte
		recOff := make([]int, len(c.Ps))
		recK := make([]int, len(c.Ps))
		pre := make([][]byte, len(c.Ps))
		if c.Carrier == "mreader" {
			for i, p := range c.Ps {
				pre[i] = framePayload(rnd, p)
				k := p
				if p >= 2 {
					k = 1 + rnd.Intn(p-1)
				}
				recOff[i], recK[i] = len(rec), k
				rec = append(rec, pre[i][:k]...)
			}
		}
		for i, p := range c.Ps {
			var payload []byte
			if pre[i] != nil {
				payload = pre[i]
			} else {
				payload = framePayload(rnd, p)
			}
			if pre[i] == nil && cf.Kind == "delim" && cf.DL > 1 && p > 0 && rnd.Intn(2) == 0 {
				// admitted payloads may contain proper prefixes of the delimiter, also at their very end; the planted
				// bytes are kept only if the first occurrence of the delimiter in payload+delimiter is still the real one
				dlm := []byte(frameDelim(cf.DL))
				plain := append([]byte(nil), payload...)
				k := 1 + rnd.Intn(cf.DL-1)
				if k > p {
					k = p
				}
				copy(payload[p-k:], dlm[:k])
				for j := 0; j+cf.DL < p-k; j += 1 + rnd.Intn(40) {
					m := 1 + rnd.Intn(cf.DL-1)
					copy(payload[j:j+m], dlm[:m])
				}
				if bytes.Index(append(append([]byte(nil), payload...), dlm...), dlm) != p {
					copy(payload, plain)
					copy(payload[p-k:], dlm[:k])
					if bytes.Index(append(append([]byte(nil), payload...), dlm...), dlm) != p {
						copy(payload, plain)
					}
				}
				if p > k && payload[p-k-1] == 0 && cf.DL == 2 {
					// fine: a longer run of prefix bytes
				}
			}
			var out []byte
			var encErr interface{}
			if cf.Kind == "lf" && !cf.Real {
				v := p + cf.EAdj
				if cf.EIncl {
					v += cf.W
				}
				out = append(framePayload(rnd, cf.O), packField(order, cf.W, v)...)
				out = append(out, payload...)
			} else {
				func() {
					defer func() { encErr = recover() }()
					enc.HandleWrite(frameCtx{onWrite: func(m netty.Message) {
						b, err := flatten(m)
						if err != nil {
							panic(err)
						}
						out = b
					}}, func() netty.Message {
						if c.Carrier == "mreader" {
							k := recK[i]
							return io.MultiReader(bytes.NewReader(rec[recOff[i]:recOff[i]+k]), bytes.NewReader(append([]byte(nil), payload[k:]...)))
						}
						return carrierOf(c.Carrier, payload)
					}())
				}()
			}
			if encErr != nil {
				// the encoder refused the payload: the stream ends before it
				res.Diverged++
				start.Ps = start.Ps[:i]
				break
			}
			hl := 0
			hv := p
			switch cf.Kind {
			case "lf":
				hl = cf.O + cf.W
				if len(out) >= hl {
					hv = unpackField(order, cf.W, out[cf.O:hl])
				}
			case "varint":
				v, n := binary.Uvarint(out)
				hl, hv = n, int(v)
			}
			start.Enc = append(start.Enc, []int{hv, len(out)})
			frames = append(frames, fr{len(wire), hl, len(out), payload})
			wire = append(wire, out...)
			// C04: the encoder's header must describe its body
			if cf.Kind == "lf" && cf.Real {
				want := p + cf.EAdj
				if cf.EIncl {
					want += cf.W
				}
				if hv != want {
					fail("C04", fmt.Sprintf("encoder-header/w=%d", cf.W), fmt.Sprintf("length prepender (width %d) wrote header value %d for a %d-byte body (expected %d): length does not fit the field and was silently truncated", cf.W, hv, p, want), i)
				}
			}
		}
	}
	cut := c.Cut
	if cut < 0 || cut > len(wire) {
		cut = len(wire)
	}
	start.Cut = cut
	res.Events = append(res.Events, start)
	// ---- decode under the requested fragmentation
	cuts := map[int]bool{}
	for _, f := range frames {
		for _, x := range []int{f.start, f.start + 1, f.start + f.hlen - 1, f.start + f.hlen, f.start + f.hlen + 1, f.start + f.size - 1, f.start + f.size} {
			cuts[x] = true
		}
	}
	// a stream that ends inside a frame may hand over its last bytes together with io.EOF (the io.Reader contract
	// allows it; the shipped transports never do, so complete streams are not delivered that way)
	inside := cut > 0 && cf.Kind != "varlen" && cf.Kind != "packet" // (these two have no frames a stream could end inside of)
	for _, f := range frames {
		if cut == f.start || cut == f.start+f.size {
			inside = false
		}
	}
	// (the decoders that read bodies through utils.ExactReader - length field, varint, fixed - also take a complete
	// stream whose last bytes come with io.EOF; the delimiter and variable-length decoders treat every (n, EOF) as an error)
	exactKind := cf.Kind == "lf" || cf.Kind == "varint" || cf.Kind == "fixed"
	src := &fragReader{data: wire[:cut], cuts: cuts, mode: c.Frag, rnd: rnd, eofWithData: (inside || (exactKind && cut == len(wire) && cut > 0)) && c.Seed%2 == 0}
	if cf.Kind == "varlen" {
		src.mode = cf.FragM // the messages of this codec are the transport reads themselves
	}
	for inv := 0; inv <= len(frames) || ((cf.Kind == "varlen") && inv < 4000); inv++ {
		before := src.pos
		ev := FrameEvent{Op: "dec", Ps: []int{}, Enc: [][]int{}}
		var delivered []byte
		got := false
		var exc interface{}
		func() {
			defer func() { exc = recover() }()
			dec.HandleRead(frameCtx{onRead: func(m netty.Message) {
				// the next handler either reads the frame itself or converts it like the text / JSON codecs do
				var b []byte
				var err error
				if r, ok := m.(io.Reader); ok && c.Seed%2 == 1 {
					b, err = utils.ToBytes(r)
					b = append([]byte(nil), b...)
				} else {
					b, err = flatten(m)
				}
				if err != nil {
					panic(err)
				}
				delivered, got = b, true
			}}, src)
		}()
		ev.Consumed = src.pos - before
		switch {
		case exc != nil:
			ev.Res = "exc"
			ev.Why = fmt.Sprint(exc)
			if _, isRt := exc.(runtime.Error); isRt {
				fail("C08", "runtime-fault/"+cf.Kind, fmt.Sprintf("decoder %s failed with a runtime fault: %v", cf.Kind, exc), inv)
			}
		case got:
			ev.Res = "msg"
			ev.Len = len(delivered)
		default:
			ev.Res = "none"
		}
		// byte-level oracle
		if ev.Res == "msg" && (cf.Kind == "varlen" || cf.Kind == "packet") {
			// no framing: what is delivered must be exactly the next bytes of the stream
			ev.Complete = true
			if !bytes.Equal(delivered, wire[before:before+ev.Consumed]) || len(delivered) != ev.Consumed {
				fail("C04", "roundtrip/"+cf.Kind, fmt.Sprintf("%s delivered %d bytes that are not the next %d bytes of the stream", cf.Kind, len(delivered), ev.Consumed), inv)
			}
			if cf.Kind == "varlen" && len(delivered) > cf.Max {
				fail("C08", "oversized/varlen", fmt.Sprintf("varlen delivered %d bytes, the configured maximum is %d", len(delivered), cf.Max), inv)
			}
		} else if ev.Res == "msg" {
			var f *fr
			if inv < len(frames) {
				f = &frames[inv]
			}
			full := f != nil && f.start == before && before+f.size <= cut
			if f != nil && f.start == before && !c.Raw {
				// expected delivery for this frame
				var want []byte
				frameBytes := wire[f.start : f.start+f.size]
				switch cf.Kind {
				case "lf":
					if cf.S <= len(frameBytes) {
						want = frameBytes[cf.S:]
					}
				case "varint":
					want = f.payload
				case "delim":
					want = frameBytes
					if cf.Strip {
						want = f.payload
					}
				case "fixed":
					want = f.payload
				}
				// "complete" as the specification defines it: every byte the header announces was received
				switch cf.Kind {
				case "lf":
					ev.Complete = len(delivered) == cf.O+cf.W+start.Enc[inv][0]+cf.A-cf.S
				case "varint":
					ev.Complete = len(delivered) == start.Enc[inv][0]
				case "fixed":
					ev.Complete = len(delivered) == cf.N
				default:
					ev.Complete = true
				}
				if full && !bytes.Equal(delivered, want) {
					fail("C04", "roundtrip/"+cf.Kind, fmt.Sprintf("%s: frame %d (%d-byte payload, carrier %s, fragmentation %s) decoded to %d bytes that differ from the payload", cf.Kind, inv, len(f.payload), c.Carrier, c.Frag, len(delivered)), inv)
				}
				if full && !bytes.Equal(delivered, want) {
					// what was delivered is not the frame that was received at this position
					fail("C08", "not-the-received-frame/"+cf.Kind, fmt.Sprintf("%s: the %d bytes delivered for frame %d are not the bytes of the frame that was received (%d-byte payload)", cf.Kind, len(delivered), inv, len(f.payload)), inv)
				}
				if full && ev.Consumed > f.size {
					fail("C08", "over-read/"+cf.Kind, fmt.Sprintf("%s: frame %d occupies %d bytes but %d bytes were read for it: bytes of the following frame were taken", cf.Kind, inv, f.size, ev.Consumed), inv)
				}
				if full && ev.Consumed != f.size {
					fail("C04", "consumption/"+cf.Kind, fmt.Sprintf("%s: frame %d occupies %d bytes but the decoder consumed %d", cf.Kind, inv, f.size, ev.Consumed), inv)
				}
				if !full {
					// the stream ended inside this frame: nothing may be delivered for it
					fail("C08", "truncated-delivery/"+cf.Kind, fmt.Sprintf("%s: the stream ended %d bytes into a %d-byte frame and %d bytes were delivered as a message", cf.Kind, cut-f.start, f.size, len(delivered)), inv)
				}
			} else if c.Raw && f != nil {
				// adversarial header: delivered bytes must be the bytes that follow the header, all of them
				if cf.Kind == "lf" {
					ev.Complete = len(delivered) == cf.O+cf.W+c.HV+cf.A-cf.S
				} else {
					ev.Complete = len(delivered) == c.HV
				}
				if !ev.Complete {
					fail("C08", "truncated-delivery/"+cf.Kind, fmt.Sprintf("%s: header announces more than the %d body bytes the stream holds and %d bytes were delivered as a message", cf.Kind, c.Body, len(delivered)), inv)
				}
			} else {
				// no frame starts here (end of stream): any delivery is a phantom
				ev.Complete = false
				fail("C08", "phantom/"+cf.Kind, fmt.Sprintf("%s: a %d-byte message was delivered at end of stream (consumed %d bytes)", cf.Kind, len(delivered), ev.Consumed), inv)
			}
			limit := cf.Max
			if cf.Kind == "fixed" {
				limit = cf.N
			}
			if len(delivered) > limit && cf.Kind != "packet" {
				fail("C08", "oversized/"+cf.Kind, fmt.Sprintf("%s delivered %d bytes, the configured maximum is %d", cf.Kind, len(delivered), limit), inv)
			}
		}
		if ev.Res == "msg" && ev.Consumed == 0 && cf.Kind != "packet" {
			fail("C08", "no-progress/"+cf.Kind, fmt.Sprintf("%s delivered a message without consuming input", cf.Kind), inv)
		}
		res.Actions[cf.Kind+"/"+ev.Res]++
		res.Events = append(res.Events, ev)
		if ev.Res != "msg" && !c.Raw && inv < len(frames) && frames[inv].start+frames[inv].size <= cut && (exactKind || !src.eofWithData) &&
			frameLegal(cf, frames[inv].size, len(frames[inv].payload)) {
			// the stream holds this frame completely (and it is one the decoder's configuration admits): it must be delivered
			fail("C04", "frame-not-delivered/"+cf.Kind, fmt.Sprintf("%s: frame %d (%d-byte payload) is completely on the stream (%d of %d bytes, fragmentation %s) but the decoder raised %q instead of delivering it", cf.Kind, inv, len(frames[inv].payload), cut, len(wire), c.Frag, ev.Why), inv)
		}
		if ev.Res != "msg" || c.Raw {
			break
		}
		if cf.Kind == "packet" {
			break
		}
		if cf.Kind != "varlen" && inv < len(frames) && ev.Consumed != frames[inv].size {
			break // the decoder is no longer aligned with the frames: what follows depends on byte values
		}
	}
	res.Frags = src.reads
	return res
}

// frameLegal: the decoder's configuration admits a frame of this size (frames beyond the maximum are refused by design).
func frameLegal(cf FrameCfg, size, payload int) bool {
	switch cf.Kind {
	case "lf", "delim":
		return size <= cf.Max
	case "varint":
		return payload <= cf.Max
	case "fixed":
		return payload == cf.N
	}
	return false
}

// eofProbe fully reads every message and counts deliveries.
type eofProbe struct {
	msgs  *int
	empty *int
}

func (p eofProbe) HandleRead(ctx netty.InboundContext, message netty.Message) {
	b, err := flatten(message)
	if err != nil {
		panic(err)
	}
	*p.msgs++
	if len(b) == 0 {
		*p.empty++
	}
}

// runEOFLoop: a real channel whose peer has closed (Read returns EOF for ever, optionally after
// some bytes). The channel must become inactive instead of delivering an endless stream of messages.
func runEOFLoop(c *FrameCase, res *FrameResult, fail func(prop, key, msg string, step int)) {
	netty.VerifHook = nil
	dec, _ := buildCodec(c.Cfg, c.Little)
	rnd := rand.New(rand.NewSource(c.Seed))
	tr := &eofTransport{Transport: mock.NewTransport(nil), pre: framePayload(rnd, c.Body), budget: 300, exhausted: make(chan struct{})}
	pl := netty.NewPipeline()
	msgs, empty := 0, 0
	pl.AddLast(dec, eofProbe{&msgs, &empty})
	ch := netty.NewChannel()(1, context.Background(), pl, tr, netty.AsyncExecutor())
	pl.ServeChannel(ch)
	select {
	case <-ch.Context().Done():
	case <-tr.exhausted:
		fail("C08", "eof-loop/"+c.Cfg.Kind, fmt.Sprintf("%s: the peer closed after %d bytes but the channel stays active: %d end-of-stream reads later %d messages (%d of them empty) have been delivered", c.Cfg.Kind, c.Body, tr.budget, msgs, empty), 0)
		ch.Close(nil)
	}
	res.Actions["eofloop/"+c.Cfg.Kind]++
}

type eofTransport struct {
	*mock.Transport
	pre       []byte
	pos       int
	eofReads  int32
	budget    int32
	exhausted chan struct{}
	once      sync.Once
}

func (t *eofTransport) Read(p []byte) (int, error) {
	if t.Transport.IsClosed() {
		return 0, &mock.NetErr{Msg: "closed"}
	}
	if t.pos < len(t.pre) {
		n := copy(p, t.pre[t.pos:])
		t.pos += n
		return n, nil
	}
	if atomic.AddInt32(&t.eofReads, 1) >= t.budget {
		t.once.Do(func() { close(t.exhausted) })
		time.Sleep(time.Millisecond)
	}
	return 0, io.EOF
}

// runFrameFuzz: random adversarial byte streams; only the black-box parts of C08 are checked:
// no runtime fault, every invocation consumes input or raises, deliveries respect the maximum.
func runFrameFuzz(c *FrameCase, res *FrameResult, fail func(prop, key, msg string, step int)) {
	rnd := rand.New(rand.NewSource(c.Seed))
	cf := c.Cfg
	for it := 0; it < c.Fuzz; it++ {
		little := rnd.Intn(2) == 0
		dec, _ := buildCodec(cf, little)
		n := rnd.Intn(40)
		if rnd.Intn(4) == 0 {
			n = rnd.Intn(3000)
		}
		data := make([]byte, n)
		rnd.Read(data)
		switch rnd.Intn(4) {
		case 0:
			for i := range data {
				data[i] = 0xff
			}
		case 1:
			for i := range data {
				if rnd.Intn(3) == 0 {
					data[i] = 0x80 | byte(rnd.Intn(128))
				}
			}
		case 2:
			for i := range data {
				data[i] = byte(rnd.Intn(3))
			}
		}
		if cf.Kind == "varint" && rnd.Intn(3) == 0 {
			// valid 9/10-byte varints around 2^63 and 2^64, and over-long ones
			heads := [][]byte{
				{0xff, 0xff, 0xff, 0xff, 0xff, 0xff, 0xff, 0xff, 0xff, 0x01},
				{0x80, 0x80, 0x80, 0x80, 0x80, 0x80, 0x80, 0x80, 0x80, 0x01},
				{0x85, 0x80, 0x80, 0x80, 0x80, 0x80, 0x80, 0x80, 0x80, 0x01},
				{0xff, 0xff, 0xff, 0xff, 0xff, 0xff, 0xff, 0xff, 0x7f},
				{0xff, 0xff, 0xff, 0xff, 0xff, 0xff, 0xff, 0xff, 0xff, 0x02},
				{0x80, 0x80, 0x80, 0x80, 0x80, 0x80, 0x80, 0x80, 0x80, 0x80, 0x01},
				{0xff, 0xff, 0xff, 0xff, 0x0f}, {0x80, 0x80, 0x80, 0x80, 0x10},
				// ten bytes whose last one carries more than the one bit that still fits 64: an overflow, whatever the low bits say
				{0x85, 0x80, 0x80, 0x80, 0x80, 0x80, 0x80, 0x80, 0x80, 0x02},
				{0x81, 0x80, 0x80, 0x80, 0x80, 0x80, 0x80, 0x80, 0x80, 0x7e},
				{0x80, 0x80, 0x80, 0x80, 0x80, 0x80, 0x80, 0x80, 0x80, 0x04},
			}
			data = append(append([]byte(nil), heads[rnd.Intn(len(heads))]...), data...)
		}
		// reference reading of the first header: a frame announced beyond the maximum must be refused
		mustRefuse := false
		switch cf.Kind {
		case "varint":
			if v, n := binary.Uvarint(data); n > 0 && v > uint64(cf.Max) {
				mustRefuse = true
			} else if n < 0 {
				mustRefuse = true
			}
		case "lf":
			if len(data) >= cf.O+cf.W && cf.W == 8 {
				// an 8-byte field with the top bit set is a negative length whatever the adjustment adds to it
				// (top bit of the field = top bit of its first or last byte, depending on the byte order)
				hi := data[cf.O]
				if little {
					hi = data[cf.O+7]
				}
				if hi&0x80 != 0 {
					mustRefuse = true
				}
			}
			if len(data) >= cf.O+cf.W && cf.W <= 4 {
				fb := data[cf.O : cf.O+cf.W]
				var v uint64
				for _, b := range fb { // big endian only: both orders are used by the fuzz loop, so only all-ones fields are judged
					v = v<<8 | uint64(b)
				}
				all := true
				for _, b := range fb {
					if b != 0xff {
						all = false
					}
				}
				if all && int64(v)+int64(cf.A)+int64(cf.O+cf.W) > int64(cf.Max) {
					mustRefuse = true
				}
			}
		}
		src := &fragReader{data: data, mode: []string{"one", "rand", "whole"}[rnd.Intn(3)], rnd: rnd, eofWithData: rnd.Intn(3) == 0}
		for inv := 0; inv < 50; inv++ {
			before := src.pos
			var delivered []byte
			got := false
			var exc interface{}
			func() {
				defer func() { exc = recover() }()
				dec.HandleRead(frameCtx{onRead: func(m netty.Message) {
					b, err := flatten(m)
					if err != nil {
						panic(err)
					}
					delivered, got = b, true
				}}, src)
			}()
			res.Actions["fuzz/"+cf.Kind]++
			if exc != nil {
				if _, isRt := exc.(runtime.Error); isRt {
					fail("C08", "runtime-fault/"+cf.Kind, fmt.Sprintf("decoder %s failed with a runtime fault on %d adversarial bytes: %v", cf.Kind, n, exc), it)
				}
				break
			}
			limit := cf.Max
			if cf.Kind == "fixed" {
				limit = cf.N
			}
			if got && len(delivered) > limit && cf.Kind != "packet" {
				fail("C08", "oversized/"+cf.Kind, fmt.Sprintf("%s delivered %d bytes, the configured maximum is %d", cf.Kind, len(delivered), limit), it)
			}
			if cf.Kind == "packet" {
				break
			}
			if got && inv == 0 && mustRefuse {
				fail("C08", "oversized-accepted/"+cf.Kind, fmt.Sprintf("%s: the first header (% x) announces a frame beyond the maximum %d (or is malformed) but a %d-byte message was delivered instead of an exception", cf.Kind, data[:minInt(len(data), 11)], cf.Max, len(delivered)), it)
			}
			if src.pos == before {
				if got && src.pos >= len(data) {
					// end of stream delivered as a message: reported by the structured cases (phantom)
					break
				}
				fail("C08", "no-progress/"+cf.Kind, fmt.Sprintf("%s: an invocation neither consumed input nor raised", cf.Kind), it)
				break
			}
		}
	}
}
