---------------------------- MODULE TraceChannel ----------------------------
(***************************************************************************)
(* Trace validation: every event recorded from the real code (one per      *)
(* scheduler step: process, gate it was released from, the location of     *)
(* every process and the projected state afterwards) must be a step of     *)
(* Channel!Next that produces exactly the observed projection.  Several    *)
(* executions are concatenated with "reset" events.                        *)
(***************************************************************************)
EXTENDS ChannelOwn, Json, IOUtils

Trace == ndJsonDeserialize(IOEnv.TRACE_FILE)

VARIABLE l

Loc(s) == IF s \in ParkedPcs THEN "parked" ELSE s

Post(e) ==
    /\ \A q \in Procs : q \in DOMAIN e.pcs => Loc(pc'[q]) = e.pcs[q]
    /\ closed' = e.st.closed
    /\ running' = e.st.running
    /\ Len(queue') = e.st.qlen
    /\ Len(tlog') = e.st.tlog
    /\ flushed' = e.st.flushed
    /\ tclosed' = e.st.tclosed
    /\ tcloses' = e.st.tcloses
    /\ ctxDone' = e.st.ctxdone
    /\ Len(inactives') = e.st.inact
    /\ actives' = e.st.act
    /\ reads' = e.st.reads
    /\ \A w \in Writers : w \in DOMAIN e.rets => wret'[w] = e.rets[w]

FaultGates == {"t.write!fail", "t.writev!fail", "t.flush!fail", "t.read!fail"}
BaseGate(a) == CASE a = "t.write!fail" -> "t.write"
                 [] a = "t.writev!fail" -> "t.writev"
                 [] a = "t.flush!fail" -> "t.flush"
                 [] a = "t.read!fail" -> "t.read"

TraceInit == Init /\ l = 1 /\ TLCSet(1, 1)

TraceStep ==
    /\ l <= Len(Trace)
    /\ l' = l + 1
    /\ LET e == Trace[l] IN
       IF e.a = "reset"
       THEN Reset
       ELSE /\ \/ /\ e.a = "env.cancel" /\ CtxCancel(e.p)
               \/ /\ e.a = "env.pcancel" /\ ParentCancel
               \/ /\ e.a = "env.pooluser" /\ PoolUserAny
               \/ /\ e.a \in FaultGates /\ pc[e.p] = BaseGate(e.a) /\ Fault(e.p)
               \/ /\ e.a \notin FaultGates /\ e.a \notin {"env.cancel", "env.pcancel", "env.pooluser"} /\ pc[e.p] = e.a /\ Step(e.p)
            /\ Post(e)

TraceSpec == TraceInit /\ [][TraceStep]_<<vars, l>>

\* high-water mark of matched trace lines
Mark == (l > TLCGet(1) => TLCSet(1, l)) /\ TRUE
TraceAccepted == PrintT(<<"HIGHWATER", TLCGet(1)>>) /\ TLCGet(1) = Len(Trace) + 1
HighWater == TLCGet(1)
=============================================================================
