"""Channel.tla binding: configurations, TLC model checking, edge-cover replay on the
real channel, trace validation of recorded executions."""
import json, os, random, re, time
from vlib import *

SIZES = [0, 1, 7, 100, 1023, 1024, 1025, 2047, 2048, 2049, 4096, 65535, 65536, 65537, 70000]
SMALL_SIZES = [1, 7, 100, 1023, 1024, 1025, 2049]
NZ_SIZES = [x for x in SIZES if x > 0]

# which repairs the real tree contains (the spec constants the code is validated against)
TREE = json.load(open(os.path.join(SPEC, "tree_model.json")))


def cfg(writers, closers=None, qsize=2, until=True, serve="pre", reads=0, maxfaults=0,
        maxpolls=10, nsenders=None, fixclosed=None, fixdrain=None, pcancel=False, swallow=False, trackbufs=False, clone=True, recyclelate=True, readcloses=()):
    """writers: {"W1": [("W1","bg"), ...]}; closers: {"C1": "e1"}"""
    closers = closers or {}
    nops = sum(sum(int(o[2]) if len(o) > 2 else 1 for o in v) for v in writers.values())
    return {
        "writers": {w: [list(o) for o in ops] for w, ops in writers.items()},
        "closers": dict(closers), "qsize": qsize, "until": until, "serve": serve, "reads": reads,
        "maxfaults": maxfaults, "maxpolls": maxpolls, "pcancel": pcancel, "swallow": swallow, "trackbufs": trackbufs, "clone": clone, "recyclelate": recyclelate, "readcloses": sorted(readcloses),
        "nsenders": nsenders if nsenders is not None else nops + 1,
        "fixclosed": TREE["FixClosed"] if fixclosed is None else fixclosed,
        "fixdrain": TREE["FixDrain"] if fixdrain is None else fixdrain,
    }


def cfg_key(c):
    return json.dumps(c, sort_keys=True)


def senders(c):
    return ["S%d" % i for i in range(1, c["nsenders"] + 1)]


def tla_consts(c, maxpolls=None):
    return {
        "Writers": set(c["writers"].keys()),
        "Prog": {w: [{"WW": "W1", "MB": "M"}.get(o[0], o[0]) for o in ops] for w, ops in c["writers"].items()},
        "CtxOf": {w: [("bg" if o[1] == "far" else o[1]) for o in ops] for w, ops in c["writers"].items()},
        "NChunks": {w: [int(o[2]) if len(o) > 2 else 1 for o in ops] for w, ops in c["writers"].items()},
        "Closers": set(c["closers"].keys()),
        "CloseArg": dict(c["closers"]),
        "SenderIds": senders(c),
        "ReadCloses": set(c.get("readcloses", [])),
        "QSize": c["qsize"], "Until": c["until"],
        "MaxPolls": c["maxpolls"] if maxpolls is None else maxpolls,
        "MaxFaults": c["maxfaults"], "Serve": c["serve"], "Reads": c["reads"],
        "FixClosed": c["fixclosed"], "FixDrain": c["fixdrain"], "PCancel": c.get("pcancel", False), "Swallow": c.get("swallow", False), "TrackBufs": c.get("trackbufs", False),
        "CloneOnWrite": c.get("clone", True), "RecycleLate": c.get("recyclelate", True),
    }


def go_case(c, cid, rnd, schedule=None, rand=None, sizes=None, props=None, notrace=False, max_steps=600, codec=False):
    sizes = sizes or NZ_SIZES  # a zero-length payload leaves no trace on the transport: only in untraced cases
    if 0 in sizes:
        notrace = True
    ws = []
    for w in sorted(c["writers"]):
        ops = []
        for o in c["writers"][w]:
            kind, ctx = o[0], o[1]
            nch = int(o[2]) if len(o) > 2 else 1
            op = {"kind": kind, "ctx": ctx, "size": sizes[rnd.randrange(len(sizes))], "parts": rnd.randrange(1, 4)}
            if kind == "MX":
                op["size"] = 0  # nothing of it ever reaches the transport
            if kind in ("MV", "Wv", "CWv") and op["size"] >= 2048 and rnd.randrange(3) == 0:
                op["parts"] = 1025 + rnd.randrange(600)  # a vector of more segments than one writev(2) takes
            if kind in ("RF", "MR", "MT"):
                # one low-level write per chunk; ReadFrom reads at most 1024 bytes at a time
                cs = [x for x in sizes if 0 < x <= 1024] or [1, 7, 100]
                op["chunks"] = [cs[rnd.randrange(len(cs))] for _ in range(nch)]
                op["size"] = sum(op["chunks"])
            ops.append(op)
        ws.append({"name": w, "ops": ops})
    case = {
        "id": cid, "qsize": c["qsize"], "until": c["until"], "writers": ws,
        "closers": [{"name": k, "arg": v} for k, v in sorted(c["closers"].items())],
        "serve": c["serve"], "reads": c["reads"], "max_faults": c["maxfaults"],
        "senders": senders(c), "seed": rnd.randrange(1, 1 << 30), "max_steps": max_steps,
        "no_trace": notrace, "codec": ("delim" if codec is True else (codec or "")), "swallow": c.get("swallow", False), "scribble": c.get("trackbufs", False), "read_closes": list(c.get("readcloses", [])),
        # what the channel hands to the transport is also pushed through the real write-buffered wrapper
        "wbuf": (0, 16, 64, 700, 4096)[rnd.randrange(5)], "pin_pool": c.get("pinpool", False),
    }
    if schedule is not None:
        case["schedule"] = schedule
    if rand is not None:
        case["random"] = rand
    if props:
        case["props"] = props
    return case


# ---------------------------------------------------------------- model checking
def model_check(wd, name, c, invariants, properties=(), spec="Spec", maxpolls=2, timeout=900,
                extra_args=(), constraint=None, view=None, workers=None, base="Channel"):
    cfg_lines = ["SPECIFICATION %s" % spec]
    if invariants:
        cfg_lines.append("INVARIANTS " + " ".join(invariants))
    if properties:
        cfg_lines.append("PROPERTIES " + " ".join(properties))
    if constraint:
        cfg_lines.append("CONSTRAINT " + constraint)
    if view:
        cfg_lines.append("VIEW " + view)
    cfg_lines.append("CHECK_DEADLOCK FALSE")
    write_mc(wd, name, base, tla_consts(c, maxpolls), cfg_lines)
    return tlc_must(run_tlc(wd, name, args=extra_args, timeout=timeout, workers=workers))


_pc_re = re.compile(r"/\\ pc = \[(.*?)\]\s*(?:\n/\\|$)", re.S)
_wret_re = re.compile(r"/\\ wret = [\[(](.*?)[\])]\s*(?:\n/\\|$)", re.S)
PARKED = {"w.blocked", "m.wait", "r.blocked", "v.wait", "msg.wait"}


def node_sig(label):
    """(pc map with parked projection, wret text, qlen) of a dot node label."""
    m = _pc_re.search(label)
    pcs = {}
    if m:
        for k, v in re.findall(r'(\w+) \|-> "([^"]*)"', m.group(1)):
            pcs[k] = "parked" if v in PARKED else v
    m = _wret_re.search(label)
    wr = re.sub(r"\s+", "", m.group(1)) if m else ""
    return (tuple(sorted(pcs.items())), wr)


LABEL_KINDS = {"Step": "step", "Fault": "fault", "CtxCancel": "cancel", "ParentCancel": "pcancel", "PoolUser": "pooluser", "Scribble": "scribble"}


def label_move(lab):
    m = re.match(r'(\w+)\("?([^")]*)"?\)', lab)
    if not m:
        m2 = re.match(r'\s*(\w+)\s*$', lab)
        if m2:
            return [LABEL_KINDS.get(m2.group(1), m2.group(1)), ""]
        return None
    return [LABEL_KINDS.get(m.group(1), m.group(1)), m.group(2)]


def graph_of(wd, name, c, maxpolls=2, timeout=900, with_sig=True):
    """Dump the full state graph of configuration c; returns (init, adj, sig, tlc result)."""
    cfg_lines = ["SPECIFICATION Spec", "CHECK_DEADLOCK FALSE"]
    write_mc(wd, name, "Channel", tla_consts(c, maxpolls), cfg_lines)
    dot = os.path.join(wd, name + ".dot")
    res = tlc_must(run_tlc(wd, name, args=["-dump", "dot,actionlabels", dot], timeout=timeout, workers=4))
    init, adj, sig = parse_dot(dot, node_sig if with_sig else None)
    os.remove(dot)
    if init is None:
        raise Inconclusive("no initial state in dot dump of %s" % name)
    return init, adj, sig, res


def walk_events(init, adj, sig, events):
    """Map a recorded execution onto graph edges using (kind, proc) labels and the observed
    (pcs, rets) signature. Returns (list of edges walked, ok)."""
    cur = init
    walked = []
    for e in events:
        a = e["a"]
        kind = {"env.cancel": "cancel", "env.pcancel": "pcancel", "env.pooluser": "pooluser"}.get(a, "fault" if a.endswith("!fail") else "step")
        cands = [(lab, v) for lab, v in adj.get(cur, []) if label_move(lab) == [kind, e["p"]]]
        if not cands:
            return walked, False
        if len(cands) > 1:
            obs = tuple(sorted((k, v) for k, v in e["pcs"].items()))
            best = None
            for lab, v in cands:
                s = sig.get(v)
                if s is None:
                    continue
                pcs = dict(s[0])
                if all(pcs.get(k, vv) == vv for k, vv in e["pcs"].items()):
                    wr_ok = True
                    for w, rets in e["rets"].items():
                        want = "<<" + ",".join('"%s"' % r for r in rets) + ">>"
                        if (w + "|->" + want) not in s[1]:
                            wr_ok = False
                    if wr_ok:
                        best = (lab, v)
                        break
            if best is None:
                return walked, False
            lab, v = best
        else:
            lab, v = cands[0]
        walked.append((cur, lab, v))
        cur = v
    return walked, True


# ---------------------------------------------------------------- trace validation
TRACE_INVARIANTS = ["TypeOK", "C01_Prefix", "C01_NoDup", "C01_ErrNoBytes", "C02_Responsible",
                    "C05_Once", "C05_InactiveErr", "C05_ActiveFirst", "C18_Bound", "C18_NeverBlocks"]


def validate_traces(wd, name, c, results, invariants=None, timeout=600):
    invariants = TRACE_INVARIANTS if invariants is None else invariants
    return validate_traces_generic(wd, name, "TraceChannel", tla_consts(c), results, invariants, timeout=timeout)
