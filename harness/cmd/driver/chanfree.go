package main

// Free-running stress of the write path (complement to the gated replays, like the pool's stress phase): N writer
// goroutines call the write entry points of one channel truly in parallel, overwrite their buffers after every call,
// and a recording transport checks that every record arrives intact, exactly once and in its writer's order. This is
// where races inside a single scheduler step (check-then-act on a shared field) can show; nothing here is modelled.

import (
	"context"
	"encoding/binary"
	"fmt"
	"hash/crc32"
	"io"
	"math/rand"
	"runtime"
	"sync"
	"time"

	netty "github.com/go-netty/go-netty"

	"verifharness/mock"
	"verifharness/sched"
)

type ChanFreeCase struct {
	ID      string `json:"id"`
	QSize   int    `json:"qsize"`
	Until   bool   `json:"until"`
	Writers int    `json:"writers"`
	Ops     int    `json:"ops"`
	MaxSize int    `json:"max_size"`
	Seed    int64  `json:"seed"`
}

type ChanFreeResult struct {
	ID         string         `json:"id"`
	Fails      []Fail         `json:"fails"`
	HarnessErr string         `json:"harness_err,omitempty"`
	Diverged   int            `json:"diverged"`
	Actions    map[string]int `json:"actions"`
	Records    int            `json:"records"`
}

// record: 0xA7 | writer(1) | seq(4) | len(4) | body(len, bytes derived from writer/seq) | crc32(4)
func freeRecord(wr int, seq int, n int) []byte {
	b := make([]byte, 10+n+4)
	b[0] = 0xA7
	b[1] = byte(wr)
	binary.BigEndian.PutUint32(b[2:], uint32(seq))
	binary.BigEndian.PutUint32(b[6:], uint32(n))
	x := uint32(wr)*2654435761 + uint32(seq)*40503 + 17
	for i := 0; i < n; i++ {
		x = x*1664525 + 1013904223
		b[10+i] = byte(x >> 24)
	}
	binary.BigEndian.PutUint32(b[10+n:], crc32.ChecksumIEEE(b[:10+n]))
	return b
}

// parkedReader keeps the read loop parked in Transport.Read (an empty pipeline would make it spin).
type parkedReader struct{}

func (parkedReader) HandleRead(ctx netty.InboundContext, message netty.Message) {
	if r, ok := message.(io.Reader); ok {
		var b [1]byte
		_, _ = r.Read(b[:])
	}
}

func runChanFreeCase(c *ChanFreeCase) *ChanFreeResult {
	res := &ChanFreeResult{ID: c.ID, Fails: []Fail{}, Actions: map[string]int{}}
	failed := map[string]bool{}
	var fmu sync.Mutex
	fail := func(prop, key, msg string) {
		fmu.Lock()
		defer fmu.Unlock()
		if !failed[prop+key] {
			failed[prop+key] = true
			res.Fails = append(res.Fails, Fail{Prop: prop, Key: key, Msg: msg})
		}
	}
	if runtime.GOMAXPROCS(0) < 4 {
		runtime.GOMAXPROCS(4)
	}
	netty.VerifHook = nil
	tr := mock.NewTransport(nil)
	pl := netty.NewPipeline()
	pl.AddLast(parkedReader{})
	var ch netty.Channel
	if c.QSize > 0 {
		ch = netty.NewAsyncWriteChannel(c.QSize, c.Until)(1, context.Background(), pl, tr, netty.AsyncExecutor())
	} else {
		ch = netty.NewChannel()(1, context.Background(), pl, tr, netty.AsyncExecutor())
	}
	go pl.ServeChannel(ch)
	for i := 0; pl.Channel() == nil && i < 1000000; i++ {
		time.Sleep(time.Microsecond)
	}
	accepted := make([][]bool, c.Writers) // [writer][seq] = the call reported success
	var wg sync.WaitGroup
	start := make(chan struct{})
	for wr := 0; wr < c.Writers; wr++ {
		accepted[wr] = make([]bool, c.Ops)
		wg.Add(1)
		go func(wr int) {
			defer wg.Done()
			defer func() {
				if r := recover(); r != nil {
					// a low-level write call panicked into its caller
					msg := fmt.Sprintf("writer %d: a write call on an open channel panicked into the caller: %v", wr, r)
					fail("C01", "stress-panic", msg)
					fail("C02", "stress-panic", msg)
					fail("C09", "stress-panic", msg)
					fail("C10", "stress-panic", msg)
				}
			}()
			rnd := rand.New(rand.NewSource(c.Seed + int64(wr)*7919))
			<-start
			for seq := 0; seq < c.Ops; seq++ {
				rec := freeRecord(wr, seq, rnd.Intn(c.MaxSize+1))
				var err error
				switch rnd.Intn(4) {
				case 0:
					_, err = ch.Write1(rec)
				case 1:
					k := 1 + rnd.Intn(len(rec)-1)
					_, err = ch.Writev([][]byte{rec[:k], rec[k:]})
				case 2:
					_, err = ch.CtxWrite1(context.Background(), rec)
				default:
					_, err = ch.Writer().Write(rec)
				}
				accepted[wr][seq] = err == nil
				for i := range rec {
					rec[i] = 0xEE // the buffer is the caller's again
				}
				if err != nil && c.Until {
					fail("C18", "stress-write-error", fmt.Sprintf("writer %d, record %d: a blocking-mode write on an open channel failed: %v", wr, seq, err))
				}
			}
		}(wr)
	}
	close(start)
	done := make(chan struct{})
	go func() { wg.Wait(); close(done) }()
	quiet := 0
wait:
	for {
		select {
		case <-done:
			break wait
		case <-time.After(20 * time.Millisecond):
			// writers that all sit parked while nothing else can move will never finish: the queue is full and nobody
			// is left to drain it (or their wake-up was lost)
			if sched.AllQuiet() {
				quiet++
			} else {
				quiet = 0
			}
			if quiet >= 5 {
				vs := netty.VerifState(ch)
				msg := fmt.Sprintf("writers are parked for ever on an open channel: queue length %d, sender role %d, nothing else can move", vs.QLen, vs.Running)
				fail("C02", "stress-stuck", msg)
				fail("C18", "stress-stuck", msg)
				fail("C01", "stress-stuck", msg)
				// let the goroutines go before leaving the case
				go ch.Close(nil)
				select {
				case <-done:
				case <-time.After(5 * time.Second):
				}
				res.Actions["stress-records"] = 0
				return res
			}
		}
	}
	if !sched.WaitQuiet(30 * time.Second) {
		res.HarnessErr = "the channel did not come to rest within 30s"
		return res
	}
	stream, flushed, _, _ := tr.Snapshot()
	// parse
	next := make([]int, c.Writers)
	seen := make([][]bool, c.Writers)
	for i := range seen {
		seen[i] = make([]bool, c.Ops)
	}
	off := 0
	for off < len(stream) {
		if len(stream)-off < 14 || stream[off] != 0xA7 {
			fail("C10", "stress-garbled", fmt.Sprintf("wire offset %d does not start a record (byte %#x): a payload was altered before it was sent or bytes of different payloads are mixed", off, stream[off]))
			fail("C09", "stress-garbled", fmt.Sprintf("wire offset %d does not start a record (byte %#x): the bytes of different payloads are mixed on the wire", off, stream[off]))
			fail("C01", "stress-garbled", fmt.Sprintf("wire offset %d does not start a record (byte %#x): the transport did not receive a concatenation of accepted payloads", off, stream[off]))
			break
		}
		wr, seq, n := int(stream[off+1]), int(binary.BigEndian.Uint32(stream[off+2:])), int(binary.BigEndian.Uint32(stream[off+6:]))
		if wr >= c.Writers || seq >= c.Ops || n > c.MaxSize || off+14+n > len(stream) {
			fail("C10", "stress-garbled", fmt.Sprintf("wire offset %d: record header (writer %d, seq %d, len %d) is not one that was written", off, wr, seq, n))
			break
		}
		want := freeRecord(wr, seq, n)
		if string(stream[off:off+14+n]) != string(want) {
			fail("C10", "stress-modified", fmt.Sprintf("record %d of writer %d (%d bytes) reached the transport with altered bytes", seq, wr, n))
			fail("C01", "stress-modified", fmt.Sprintf("record %d of writer %d (%d bytes) reached the transport with altered bytes", seq, wr, n))
		}
		if seen[wr][seq] {
			fail("C01", "stress-duplicate", fmt.Sprintf("record %d of writer %d was transmitted twice", seq, wr))
		}
		seen[wr][seq] = true
		if seq < next[wr] {
			fail("C01", "stress-writer-order", fmt.Sprintf("writer %d: record %d arrived after record %d", wr, seq, next[wr]-1))
		}
		next[wr] = seq + 1
		if !accepted[wr][seq] {
			fail("C01", "stress-err-bytes", fmt.Sprintf("record %d of writer %d was transmitted although its call returned an error", seq, wr))
		}
		off += 14 + n
		res.Records++
	}
	if len(res.Fails) == 0 {
		for wr := range accepted {
			for seq, ok := range accepted[wr] {
				if ok && !seen[wr][seq] {
					fail("C02", "stress-stranded", fmt.Sprintf("record %d of writer %d was accepted but never reached the transport", seq, wr))
				}
			}
		}
		if flushed != len(stream) {
			fail("C02", "stress-unflushed", fmt.Sprintf("%d of %d bytes flushed at rest", flushed, len(stream)))
		}
	}
	res.Actions["stress-records"] = res.Records
	ch.Close(nil)
	return res
}
