---------------------------- MODULE TraceBootstrap ----------------------------
(* Trace validation of recorded executions of the real bootstrap against Bootstrap.tla. *)
EXTENDS Bootstrap, Json, IOUtils

Trace == ndJsonDeserialize(IOEnv.TRACE_FILE)
VARIABLE l

TraceInit == Init /\ l = 1 /\ TLCSet(1, 1)

Reset ==
    /\ mpc' = (IF Len(Program) > 0 THEN "m.op" ELSE "done") /\ mop' = 1
    /\ lpc' = [x \in Listeners |-> "none"] /\ lret' = [x \in Listeners |-> "none"]
    /\ registry' = {}
    /\ lacc' = [x \in Listeners |-> "nil"] /\ lclosed' = [x \in Listeners |-> FALSE]
    /\ acc' = [x \in Listeners |-> "none"]
    /\ backlog' = [x \in Listeners |-> 0] /\ incoming' = 0
    /\ bctx' = FALSE
    /\ spc' = (IF WithShutdown THEN "sd.cancel" ELSE "none") /\ stodo' = {} /\ scur' = 0 /\ sch' = <<>>
    /\ holder' = {}
    /\ ch' = [k \in Chans |-> NoCh] /\ rpc' = [k \in Chans |-> "none"] /\ owner' = [k \in Chans |-> -1]
    /\ nch' = 0
    /\ lcur' = [x \in Listeners |-> 0]

Parked == {"serving", "a.blocked", "r.blocked"}
Loc(s) == IF s \in Parked THEN "parked" ELSE s

LName(x) == "L" \o ToString(x)
RName(k) == "R" \o ToString(k)

Post(e) ==
    /\ Loc(mpc') = e.pcs.M
    /\ Loc(spc') = e.pcs.SD
    /\ \A x \in Listeners : Loc(lpc'[x]) = e.pcs[LName(x)]
    /\ \A k \in Chans : Loc(rpc'[k]) = e.pcs[RName(k)]
    /\ bctx' = e.st.bctx
    /\ incoming' = e.st.incoming
    /\ nch' = e.st.nch
    /\ \A x \in Listeners : acc'[x] = e.st.acc[ToString(x)] /\ lret'[x] = e.st.lret[ToString(x)]
    /\ \A k \in Chans : ToString(k) \in DOMAIN e.st.ch =>
          /\ ch'[k].closed = e.st.ch[ToString(k)].closed
          /\ ch'[k].tcloses = e.st.ch[ToString(k)].tcloses
          /\ ch'[k].inactives = e.st.ch[ToString(k)].inactives

ProcStep(p) ==
    IF p = "M" THEN MStep
    ELSE IF p = "SD" THEN SStep
    ELSE \/ \E x \in Listeners : p = LName(x) /\ LStep(x)
         \/ \E k \in Chans : p = RName(k) /\ RStep(k)

TraceStep ==
    /\ l <= Len(Trace)
    /\ l' = l + 1
    /\ LET e == Trace[l] IN
       IF e.a = "reset" THEN Reset
       ELSE /\ IF e.a = "env.incoming" THEN Incoming(e.l) ELSE ProcStep(e.p)
            /\ Post(e)

TraceSpec == TraceInit /\ [][TraceStep]_<<vars, l>>
Mark == (l > TLCGet(1) => TLCSet(1, l)) /\ TRUE
TraceAccepted == PrintT(<<"HIGHWATER", TLCGet(1)>>) /\ TLCGet(1) = Len(Trace) + 1
=============================================================================
