package main

// Pool driver: executes Get/Put histories (TLC state-graph paths or seeded random
// ones) on the real pbytes / pbuffer pools, tags buffers by identity, records
// the history for TLC trace validation and checks the C19 oracle.

import (
	"bytes"
	"fmt"
	"math/rand"
	"runtime"
	"runtime/debug"
	"sync"
	"sync/atomic"
	"time"
	"unsafe"

	"github.com/go-netty/go-netty/utils/pool"
	"github.com/go-netty/go-netty/utils/pool/pbuffer"
	"github.com/go-netty/go-netty/utils/pool/pbytes"
)

type PoolOp struct {
	Op  string `json:"op"`  // get put putf
	N   int    `json:"n"`   // get: requested size
	ID  int    `json:"id"`  // put: buffer id (1-based, in creation order)
	Cap int    `json:"cap"` // putf: capacity of the foreign buffer
}

type PoolCase struct {
	ID      string   `json:"id"`
	Kind    string   `json:"kind"` // bytes | buffer
	Max     int      `json:"max"`
	Default bool     `json:"default"` // use the package-level DefaultPool functions
	Ops     []PoolOp `json:"ops"`
	Random  int      `json:"random"` // number of random ops appended
	Sizes   []int    `json:"sizes"`
	Seed    int64    `json:"seed"`
	MaxBufs int      `json:"max_bufs"`
	PMath   []int    `json:"pmath"`  // values for which ceil/floor/class are reported
	Stress  int      `json:"stress"` // > 0: concurrent Get/Put by 8 goroutines for this many milliseconds (ownership oracle only)
}

type PoolEvent struct {
	Case string `json:"case,omitempty"`
	Op   string `json:"op"`
	N    int    `json:"n"`
	ID   int    `json:"id"`
	Cap  int    `json:"cap"`
}

type PoolResult struct {
	ID         string      `json:"id"`
	Events     []PoolEvent `json:"events"`
	Fails      []Fail      `json:"fails"`
	HarnessErr string      `json:"harness_err,omitempty"`
	Diverged   int         `json:"diverged"`
	Shards     int         `json:"shards"`
	Step       int         `json:"step"`
	PMath      [][]int     `json:"pmath,omitempty"` // n, ceil, floor, class, idx
	Hits       int         `json:"hits"`
}

type pooled struct {
	bs  *[]byte
	bb  *bytes.Buffer
	ptr uintptr
	cap int
	own string // user pool dropped
	tag byte
}

func dataPtr(b []byte) uintptr {
	if cap(b) == 0 {
		return 0
	}
	return uintptr(unsafe.Pointer(unsafe.SliceData(b[:1])))
}

func runPoolCase(c *PoolCase) (res *PoolResult) {
	res = &PoolResult{ID: c.ID, Fails: []Fail{}}
	defer func() {
		if r := recover(); r != nil {
			// the driver only touches what Get handed out: a panic here means that was not a usable buffer
			res.Fails = append(res.Fails, Fail{Prop: "C19", Key: "unusable-buffer", Msg: fmt.Sprintf("%s pool(max %d): using a buffer obtained from Get panicked: %v", c.Kind, c.Max, r)})
		}
	}()
	if c.Stress > 0 {
		runPoolStress(c, res)
		return res
	}
	// sync.Pool is per-P and cleared by GC: pin both so that the history is reproducible
	runtime.GOMAXPROCS(1)
	old := debug.SetGCPercent(-1)
	defer debug.SetGCPercent(old)
	failed := map[string]bool{}
	fail := func(key, msg string, step int) {
		if !failed[key] {
			failed[key] = true
			res.Fails = append(res.Fails, Fail{Prop: "C19", Key: key, Msg: msg, Step: step})
		}
	}
	gp := pool.New[*[]byte](c.Max)
	res.Shards, res.Step = gp.VerifParams()
	for _, n := range c.PMath {
		row := []int{n, -1, -1, -1, -1}
		func() {
			defer func() { recover() }()
			row[1] = pool.VerifCeilToPowerOfTwo(n)
		}()
		row[2] = pool.VerifFloorToPowerOfTwo(n)
		row[3], row[4] = gp.VerifClass(n)
		res.PMath = append(res.PMath, row)
	}
	var pb *pbytes.Pool
	var pf *pbuffer.Pool
	if c.Kind == "buffer" {
		if c.Default {
			pf = pbuffer.DefaultPool
		} else {
			pf = pbuffer.New(c.Max)
		}
	} else {
		if c.Default {
			pb = pbytes.DefaultPool
		} else {
			pb = pbytes.New(c.Max)
		}
	}
	var bufs []*pooled // index = id-1
	byPtr := map[uintptr]*pooled{}
	rnd := rand.New(rand.NewSource(c.Seed))
	ops := append([]PoolOp(nil), c.Ops...)
	for i := 0; i < c.Random; i++ {
		switch r := rnd.Intn(10); {
		case r < 5:
			ops = append(ops, PoolOp{Op: "get", N: c.Sizes[rnd.Intn(len(c.Sizes))]})
		case r < 8:
			ops = append(ops, PoolOp{Op: "put", ID: -1})
		default:
			ops = append(ops, PoolOp{Op: "putf", Cap: c.Sizes[rnd.Intn(len(c.Sizes))]})
		}
	}
	for step, op := range ops {
		switch op.Op {
		case "get":
			var p *pooled
			var got []byte
			var bbuf *bytes.Buffer
			var bs *[]byte
			if pf != nil {
				bbuf = pf.Get(op.N)
				got = bbuf.Bytes()[:0]
				if bbuf.Cap() > 0 {
					got = bbuf.Bytes()[:0:bbuf.Cap()]
				}
			} else {
				bs = pb.Get(op.N)
				got = *bs
			}
			ptr := dataPtr(got[:0:cap(got)])
			if q := byPtr[ptr]; q != nil && ptr != 0 {
				p = q
				res.Hits++
				if p.own == "user" {
					fail("double-handout", fmt.Sprintf("Get(%d) returned buffer #%d which a user still holds", op.N, p.tag), step)
				}
				if p.own == "dropped" {
					fail("handout-of-dropped", fmt.Sprintf("Get(%d) returned buffer #%d that the pool should have dropped", op.N, p.tag), step)
				}
				// content check: nobody scribbled while pooled
			} else {
				if len(bufs) >= c.MaxBufs {
					res.Diverged++
					continue
				}
				p = &pooled{ptr: ptr, tag: byte(len(bufs) + 1)}
				bufs = append(bufs, p)
				if ptr != 0 {
					byPtr[ptr] = p
				}
			}
			p.bs, p.bb, p.cap, p.own = bs, bbuf, cap(got), "user"
			if cap(got) < op.N {
				fail(fmt.Sprintf("cap-below-request"), fmt.Sprintf("%s pool(max %d): Get(%d) returned capacity %d", c.Kind, c.Max, op.N, cap(got)), step)
			}
			res.Events = append(res.Events, PoolEvent{Op: "get", N: op.N, ID: int(p.tag), Cap: cap(got)})
		case "put":
			var p *pooled
			if op.ID == -1 {
				var held []*pooled
				for _, q := range bufs {
					if q.own == "user" {
						held = append(held, q)
					}
				}
				if len(held) == 0 {
					continue
				}
				p = held[rnd.Intn(len(held))]
			} else {
				if op.ID < 1 || op.ID > len(bufs) || bufs[op.ID-1].own != "user" {
					res.Diverged++
					continue
				}
				p = bufs[op.ID-1]
			}
			if pf != nil {
				pf.Put(p.bb)
			} else {
				b := (*p.bs)[:0]
				pb.Put(&b)
			}
			p.own = "pool"
			res.Events = append(res.Events, PoolEvent{Op: "put", ID: int(p.tag), Cap: p.cap})
		case "putf":
			if len(bufs) >= c.MaxBufs {
				res.Diverged++
				continue
			}
			raw := make([]byte, 0, op.Cap)
			p := &pooled{ptr: dataPtr(raw), tag: byte(len(bufs) + 1), cap: cap(raw), own: "pool"}
			bufs = append(bufs, p)
			if p.ptr != 0 {
				byPtr[p.ptr] = p
			}
			if pf != nil {
				p.bb = bytes.NewBuffer(raw)
				p.cap = p.bb.Cap()
				pf.Put(p.bb)
			} else {
				p.bs = &raw
				pb.Put(&raw)
			}
			res.Events = append(res.Events, PoolEvent{Op: "putf", ID: int(p.tag), Cap: p.cap})
		}
	}
	return res
}

// runPoolStress: real concurrency (no gates): every buffer has an owner counter; a buffer handed to
// two goroutines at once, or with a capacity below the request, fails the C19 oracle.
func runPoolStress(c *PoolCase, res *PoolResult) {
	runtime.GOMAXPROCS(8)
	var pb *pbytes.Pool
	var pf *pbuffer.Pool
	if c.Kind == "buffer" {
		pf = pbuffer.New(c.Max)
	} else {
		pb = pbytes.New(c.Max)
	}
	var owners sync.Map // data pointer -> *int32
	var mu sync.Mutex
	failed := map[string]bool{}
	fail := func(key, msg string) {
		mu.Lock()
		if !failed[key] {
			failed[key] = true
			res.Fails = append(res.Fails, Fail{Prop: "C19", Key: key, Msg: msg})
		}
		mu.Unlock()
	}
	deadline := time.Now().Add(time.Duration(c.Stress) * time.Millisecond)
	var wg sync.WaitGroup
	var ops int64
	for g := 0; g < 8; g++ {
		wg.Add(1)
		go func(g int) {
			defer wg.Done()
			defer func() {
				if r := recover(); r != nil {
					// using what Get returned (or handing it back) blew up: a nil / cleared slice header, an index out of range
					fail("unusable-buffer", fmt.Sprintf("%s pool(max %d): using a buffer obtained from Get under concurrent use panicked: %v", c.Kind, c.Max, r))
				}
			}()
			rnd := rand.New(rand.NewSource(c.Seed + int64(g)))
			for time.Now().Before(deadline) {
				n := c.Sizes[rnd.Intn(len(c.Sizes))]
				var b []byte
				var bs *[]byte
				var bb *bytes.Buffer
				if pf != nil {
					bb = pf.Get(n)
					b = bb.Bytes()[:0:bb.Cap()]
				} else {
					bs = pb.Get(n)
					b = (*bs)[:0:cap(*bs)]
				}
				atomic.AddInt64(&ops, 1)
				if cap(b) < n {
					fail("cap-below-request", fmt.Sprintf("%s pool(max %d): Get(%d) returned capacity %d under concurrent use", c.Kind, c.Max, n, cap(b)))
				}
				if cap(b) == 0 {
					continue
				}
				ptr := dataPtr(b)
				v, _ := owners.LoadOrStore(ptr, new(int32))
				cnt := v.(*int32)
				if atomic.AddInt32(cnt, 1) != 1 {
					fail("double-handout", fmt.Sprintf("%s pool(max %d): one buffer (cap %d) was handed out to two goroutines at the same time", c.Kind, c.Max, cap(b)))
				}
				full := b[:cap(b)]
				full[0] = byte(g)
				runtime.Gosched()
				if full[0] != byte(g) {
					fail("double-handout", fmt.Sprintf("%s pool(max %d): a buffer held by one goroutine was overwritten by another", c.Kind, c.Max))
				}
				atomic.AddInt32(cnt, -1)
				if pf != nil {
					pf.Put(bb)
				} else {
					bb2 := b[:0]
					pb.Put(&bb2)
				}
			}
		}(g)
	}
	wg.Wait()
	res.Hits = int(ops)
}
