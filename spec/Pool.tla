------------------------------- MODULE Pool -------------------------------
(***************************************************************************)
(* utils/pool: the generic size-class pool behind pbytes/pbuffer, with the *)
(* pmath helpers as TLA+ operators.  sync.Pool is modelled as a bag per    *)
(* shard from which Get may take ANY element or none.                      *)
(***************************************************************************)
EXTENDS Integers, Sequences, FiniteSets, TLC

CONSTANTS
    Max,       \* argument of pool.New
    Sizes,     \* values used for Get(n) and for capacities of foreign buffers
    MaxOps,    \* length bound of the explored histories
    MaxBufs,   \* how many distinct buffers may be created
    FixPut     \* TRUE: Put keeps only capacities that are exactly a size class (C19 repair)

VARIABLES shard, capOf, owner, nid, nops, last

vars == <<shard, capOf, owner, nid, nops, last>>

Pow2 == {2^k : k \in 0..30}
Ceil2(n)  == IF n <= 2 THEN n ELSE CHOOSE p \in Pow2 : p >= n /\ \A q \in Pow2 : q >= n => p <= q
Floor2(n) == IF n <= 2 THEN n ELSE CHOOSE p \in Pow2 : p <= n /\ \A q \in Pow2 : q <= n => q <= p
MaxI(a, b) == IF a < b THEN b ELSE a
MinI(a, b) == IF a < b THEN a ELSE b

\* pool.New(max)
MaxSize == Ceil2(MaxI(Max, 1))
Shard0  == MaxI(1, MinI(MaxSize, 64))
Step    == Ceil2(MaxSize \div Shard0)
NShards == IF Step * Shard0 < MaxSize THEN Shard0 + 1 ELSE Shard0

Class(n) == IF n <= Step THEN Step ELSE Ceil2(n)
Idx(sz)  == (sz - 1) \div Step

Bufs == 1..MaxBufs

Init ==
    /\ shard = [i \in 0..(NShards - 1) |-> {}]
    /\ capOf = [b \in Bufs |-> 0]
    /\ owner = [b \in Bufs |-> "none"]
    /\ nid = 1 /\ nops = 0
    /\ last = [op |-> "init", n |-> 0, id |-> 0, cap |-> 0]

\* Get(n) served from the pool: any buffer of the shard
GetHit(n, b) ==
    /\ nops < MaxOps
    /\ LET i == Idx(Class(n)) IN
       /\ i < NShards /\ b \in shard[i]
       /\ shard' = [shard EXCEPT ![i] = @ \ {b}]
    /\ owner' = [owner EXCEPT ![b] = "user"]
    /\ last' = [op |-> "get", n |-> n, id |-> b, cap |-> capOf[b]]
    /\ nops' = nops + 1
    /\ UNCHANGED <<capOf, nid>>

\* Get(n) not served (empty shard, sync.Pool dropped it, or beyond the pool range): fresh buffer
GetMiss(n) ==
    /\ nops < MaxOps /\ nid <= MaxBufs
    /\ capOf' = [capOf EXCEPT ![nid] = Class(n)]
    /\ owner' = [owner EXCEPT ![nid] = "user"]
    /\ last' = [op |-> "get", n |-> n, id |-> nid, cap |-> Class(n)]
    /\ nid' = nid + 1 /\ nops' = nops + 1
    /\ UNCHANGED shard

Kept(c) == /\ c >= Step
           /\ Idx(c) < NShards
           /\ (FixPut => Class(c) = c)

PutBuf(b, c) ==
    IF Kept(c)
    THEN /\ shard' = [shard EXCEPT ![Idx(c)] = @ \cup {b}]
         /\ owner' = [owner EXCEPT ![b] = "pool"]
    ELSE /\ UNCHANGED shard
         /\ owner' = [owner EXCEPT ![b] = "dropped"]

\* Put of a buffer the user holds
Put(b) ==
    /\ nops < MaxOps /\ owner[b] = "user"
    /\ PutBuf(b, capOf[b])
    /\ last' = [op |-> "put", n |-> 0, id |-> b, cap |-> capOf[b]]
    /\ nops' = nops + 1
    /\ UNCHANGED <<capOf, nid>>

\* Put of a slice that did not come from the pool, of any capacity
PutForeign(c) ==
    /\ nops < MaxOps /\ nid <= MaxBufs
    /\ capOf' = [capOf EXCEPT ![nid] = c]
    /\ PutBuf(nid, c)
    /\ last' = [op |-> "putf", n |-> 0, id |-> nid, cap |-> c]
    /\ nid' = nid + 1 /\ nops' = nops + 1

Next ==
    \/ \E n \in Sizes : GetMiss(n) \/ PutForeign(n) \/ \E b \in Bufs : GetHit(n, b)
    \/ \E b \in Bufs : Put(b)

Spec == Init /\ [][Next]_vars

-----------------------------------------------------------------------------
\* C19: Get(n) returns capacity >= n
C19_Cap == last.op = "get" => last.cap >= last.n
\* ... which is: every pooled buffer is large enough for every request its shard serves
C19_ShardCap == \A i \in DOMAIN shard : \A b \in shard[i] : \A n \in Sizes : Idx(Class(n)) = i => capOf[b] >= n
\* a buffer is in at most one shard, and only while the pool owns it
C19_Exclusive ==
    /\ \A i, j \in DOMAIN shard : i # j => shard[i] \cap shard[j] = {}
    /\ \A b \in Bufs : (owner[b] = "pool") <=> (\E i \in DOMAIN shard : b \in shard[i])

\* size-class arithmetic (pmath) over the configured sizes
PMathOK ==
    \A n \in Sizes :
        /\ Ceil2(n) >= n
        /\ (n > 0 => Ceil2(n) \in Pow2 /\ Floor2(n) \in Pow2 /\ Floor2(n) <= n)
        /\ (n > 2 => Ceil2(n) < 2 * n /\ 2 * Floor2(n) > n)
        /\ \A m \in Sizes : m <= n => (Class(m) <= Class(n) /\ Idx(Class(m)) <= Idx(Class(n)))
=============================================================================
