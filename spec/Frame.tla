------------------------------- MODULE Frame -------------------------------
(***************************************************************************)
(* codec/frame: the decoders as readers over a supply-limited byte stream  *)
(* (header parse, validation ladder, lazy body reader, delimiter scan) and *)
(* the encoders' header arithmetic including the capacity of the field.    *)
(* Bytes are abstract: a stream is a sequence of frames with payload       *)
(* lengths, available up to a cut position after which the source reports  *)
(* end of stream.  One Decode step = one invocation of a decoder followed  *)
(* by the downstream consumer reading the delivered message to its end.    *)
(***************************************************************************)
EXTENDS Integers, Sequences, FiniteSets, TLC

CONSTANTS
    Configs,    \* set of codec configurations (records, see below)
    Lens,       \* payload lengths to enumerate
    MaxFrames,  \* frames per stream
    FixEOF,     \* TRUE: bodies are read through an exact-length reader (early EOF = error)  (C08 repair)
    FixCap      \* TRUE: the length prepender rejects lengths that do not fit the field   (C04 repair)

(* configuration record:
   [kind |-> "lf",     w, o, a, s, max, eadj, eincl, real]   length-field decoder + prepender(w, eadj, eincl);
                       real = the shipped prepender encodes (o = 0), otherwise the harness lays the frame out
   [kind |-> "varint", max]
   [kind |-> "delim",  max, dl, strip]
   [kind |-> "fixed",  n]
   [kind |-> "varlen", max, frag]   variable-length codec: one message per transport read (frag = "one" | "whole")
   [kind |-> "packet"]              packet codec: everything up to end of stream is one message            *)

VARIABLES cfg, frames, cut, pos, k, last, phase, raw

vars == <<cfg, frames, cut, pos, k, last, phase, raw>>

MinI(a, b) == IF a < b THEN a ELSE b
Pow256(w) == IF w = 1 THEN 256 ELSE IF w = 2 THEN 65536 ELSE 2147483647   \* 4/8-byte fields: beyond TLC's integers
VarLen(v) == IF v < 128 THEN 1 ELSE IF v < 16384 THEN 2 ELSE IF v < 2097152 THEN 3 ELSE IF v < 268435456 THEN 4 ELSE 5

-----------------------------------------------------------------------------
(* encoders: what is put on the wire for a payload of p bytes *)

\* value the prepender writes into its w-byte field
EncValue(c, p) == p + c.eadj + (IF c.eincl THEN c.w ELSE 0)
Fits(c, v) == v >= 0 /\ v < Pow256(c.w)
\* the code stores the value modulo the capacity of the field
Wrapped(c, v) == IF c.w <= 2 THEN v % Pow256(c.w) ELSE v

Encode(c, p) ==
    CASE c.kind = "lf" ->
            LET v == EncValue(c, p) IN
            IF (FixCap \/ ~c.real) /\ ~Fits(c, v)
            THEN [ok |-> FALSE, hv |-> 0, hlen |-> 0, size |-> 0]
            ELSE [ok |-> TRUE, hv |-> Wrapped(c, v), hlen |-> c.o + c.w, size |-> c.o + c.w + p]
      [] c.kind = "varint" ->
            IF p > c.max THEN [ok |-> FALSE, hv |-> 0, hlen |-> 0, size |-> 0]
            ELSE [ok |-> TRUE, hv |-> p, hlen |-> VarLen(p), size |-> VarLen(p) + p]
      [] c.kind = "delim" -> [ok |-> TRUE, hv |-> p, hlen |-> 0, size |-> p + c.dl]
      [] c.kind \in {"fixed", "varlen", "packet"} -> [ok |-> TRUE, hv |-> p, hlen |-> 0, size |-> p]

\* payloads the codec's contract admits
Admitted(c, p) ==
    CASE c.kind = "lf" -> /\ c.o + c.w + p <= c.max
                          /\ Fits(c, EncValue(c, p))
                          /\ EncValue(c, p) + c.a = p       \* decoder's adjustment compensates the encoder's
                          /\ c.s <= c.o + c.w + p
      [] c.kind = "varint" -> p <= c.max
      [] c.kind = "delim" -> p + c.dl <= c.max
      [] c.kind = "fixed" -> p = c.n
      [] c.kind = "varlen" -> p >= 1 /\ p <= c.max
      [] c.kind = "packet" -> TRUE

-----------------------------------------------------------------------------
(* decoders: one invocation on a stream with R bytes left before end of stream; f = the frame
   record [p, hv, hlen, size] that starts here ("none" fields are not used when R = 0)        *)

Exc(why, consumed) == [res |-> "exc", len |-> 0, complete |-> FALSE, consumed |-> consumed, why |-> why]
Msg(len, complete, consumed) ==
    IF FixEOF /\ ~complete THEN Exc("truncated", consumed)
    ELSE [res |-> "msg", len |-> len, complete |-> complete, consumed |-> consumed, why |-> ""]

DecodeLF(c, R, hv) ==
    LET H == c.o + c.w
        FL == hv + c.a + H
        declared == FL - H
        got == MinI(declared, R - H)
    IN IF R < H THEN Exc("header", R)
       ELSE IF FL < H THEN Exc("adjusted", H)
       ELSE IF FL > c.max THEN Exc("toolarge", H)
       ELSE IF c.s > FL THEN Exc("strip", H)
       ELSE IF c.s > H + got THEN Exc("stripeof", H + got)
       ELSE Msg(H + got - c.s, got = declared, H + got)

DecodeVarint(c, R, v, vl) ==
    IF R < vl THEN Exc(IF R = 0 THEN "eof" ELSE "header", R)
    ELSE IF v > c.max THEN Exc("toolarge", vl)
    ELSE LET got == MinI(v, R - vl) IN Msg(got, got = v, vl + got)

\* byte-wise scan for the delimiter, at most max bytes; bodies are delimiter-free
DecodeDelim(c, R, p) ==
    LET F == p + c.dl IN
    IF F <= c.max /\ R >= F THEN Msg(IF c.strip THEN p ELSE F, TRUE, F)
    ELSE IF R >= c.max THEN Exc("toolarge", c.max)
    ELSE Exc("eof", R)

DecodeFixed(c, R) ==
    LET got == MinI(c.n, R) IN Msg(got, got = c.n, got)

\* one transport read per message, at most max bytes; frames have no boundaries of their own
DecodeVarlen(c, R) ==
    IF R = 0 THEN Exc("eof", 0)
    ELSE LET got == MinI(IF c.frag = "one" THEN 1 ELSE R, c.max) IN Msg(got, TRUE, got)

\* everything that is left is one packet
DecodePacket(c, R) == [res |-> "msg", len |-> R, complete |-> TRUE, consumed |-> R, why |-> ""]

Decode(c, R, f) ==
    CASE c.kind = "lf" -> DecodeLF(c, R, f.hv)
      [] c.kind = "varint" -> DecodeVarint(c, R, f.hv, IF f.hlen < 1 THEN 1 ELSE f.hlen)
      [] c.kind = "delim" -> DecodeDelim(c, R, f.p)
      [] c.kind = "fixed" -> DecodeFixed(c, R)
      [] c.kind = "varlen" -> DecodeVarlen(c, R)
      [] c.kind = "packet" -> DecodePacket(c, R)

-----------------------------------------------------------------------------
NoFrame == [p |-> 0, hv |-> 0, hlen |-> 0, size |-> 0]
FrameOf(c, p) == LET e == Encode(c, p) IN [p |-> p, hv |-> e.hv, hlen |-> e.hlen, size |-> e.size]

RECURSIVE Total(_)
Total(fs) == IF fs = <<>> THEN 0 ELSE Head(fs).size + Total(Tail(fs))

Init ==
    /\ cfg = [kind |-> "none"] /\ frames = <<>> /\ cut = 0 /\ pos = 0 /\ k = 1
    /\ last = [res |-> "none"] /\ phase = "idle" /\ raw = FALSE

\* a stream: payloads ps encoded back to back, available up to cut bytes
Start(c, ps, ct) ==
    /\ phase = "idle"
    /\ \A i \in 1..Len(ps) : Encode(c, ps[i]).ok
    /\ cfg' = c
    /\ frames' = [i \in 1..Len(ps) |-> FrameOf(c, ps[i])]
    /\ ct \in 0..Total([i \in 1..Len(ps) |-> FrameOf(c, ps[i])])
    /\ cut' = ct /\ pos' = 0 /\ k' = 1 /\ raw' = FALSE
    /\ last' = [res |-> "start"] /\ phase' = "run"

\* one decoder invocation + consumer
Step ==
    /\ phase = "run"
    /\ LET f == IF k <= Len(frames) THEN frames[k] ELSE NoFrame
           r == Decode(cfg, cut - pos, f)
       IN /\ last' = r
          /\ pos' = pos + r.consumed
          /\ k' = k + 1
          \* after an exception, at the end, or once the decoder is no longer aligned with the frames
          \* (what follows would depend on byte values) the run ends
          /\ phase' = IF cfg.kind = "varlen" THEN (IF r.res = "exc" THEN "done" ELSE "run")
                       ELSE IF r.res = "exc" \/ k > Len(frames) \/ raw \/ cfg.kind = "packet" \/ r.consumed # f.size THEN "done" ELSE "run"
    /\ UNCHANGED <<cfg, frames, cut, raw>>

\* a single frame with an arbitrary header value hv and body bytes, then end of stream
StartRaw(c, hv, body) ==
    /\ phase = "idle" /\ c.kind \in {"lf", "varint"}
    /\ cfg' = c
    /\ LET hl == IF c.kind = "lf" THEN c.o + c.w ELSE VarLen(hv) IN
       /\ frames' = << [p |-> body, hv |-> hv, hlen |-> hl, size |-> hl + body] >>
       /\ cut' = hl + body
    /\ pos' = 0 /\ k' = 1 /\ raw' = TRUE
    /\ last' = [res |-> "start"] /\ phase' = "run"

PSeqs == UNION {[1..n -> Lens] : n \in 0..MaxFrames}

\* interesting end-of-stream positions: around every frame start, header end and frame end
RECURSIVE Offsets(_, _)
Offsets(fs, at) == IF fs = <<>> THEN {} ELSE
    {at, at + 1, at + Head(fs).hlen - 1, at + Head(fs).hlen, at + Head(fs).hlen + 1,
     at + Head(fs).size - 1, at + Head(fs).size} \cup Offsets(Tail(fs), at + Head(fs).size)
CutSet(fs) == IF Total(fs) <= 12 THEN 0..Total(fs) ELSE (Offsets(fs, 0) \cap (0..Total(fs))) \cup {Total(fs)}

Next ==
    \/ \E c \in Configs, ps \in PSeqs :
          /\ \A i \in 1..Len(ps) : Encode(c, ps[i]).ok
          /\ \E ct \in CutSet([i \in 1..Len(ps) |-> FrameOf(c, ps[i])]) : Start(c, ps, ct)
    \/ \E c \in Configs, hv \in Lens \cup {255, 256, 65535, 65536, 1000000}, body \in Lens : body <= 4096 /\ StartRaw(c, hv, body)
    \/ Step

Spec == Init /\ [][Next]_vars

\* for exhaustive checking: every (configuration, payload sequence, cut) is an initial state
MCInit ==
    \/ \E c \in Configs, ps \in PSeqs :
          /\ \A i \in 1..Len(ps) : Encode(c, ps[i]).ok
          /\ (c.kind = "varlen" => \A i \in 1..Len(ps) : ps[i] <= 300)     \* one step per transport read
          /\ LET fs == [i \in 1..Len(ps) |-> FrameOf(c, ps[i])] IN
             \E ct \in CutSet(fs) :
                /\ cfg = c /\ frames = fs /\ cut = ct /\ pos = 0 /\ k = 1 /\ raw = FALSE
                /\ last = [res |-> "start"] /\ phase = "run"
    \/ \E c \in Configs, hv \in Lens \cup {255, 256, 65535, 65536, 1000000}, body \in Lens :
          /\ body <= 4096 /\ c.kind \in {"lf", "varint"}
          /\ LET hl == IF c.kind = "lf" THEN c.o + c.w ELSE VarLen(hv) IN
             /\ cfg = c /\ frames = << [p |-> body, hv |-> hv, hlen |-> hl, size |-> hl + body] >>
             /\ cut = hl + body /\ pos = 0 /\ k = 1 /\ raw = TRUE
             /\ last = [res |-> "start"] /\ phase = "run"
MCSpec == MCInit /\ [][Step]_vars

-----------------------------------------------------------------------------
(* properties *)

CurFrame == IF k - 1 <= Len(frames) /\ k > 1 THEN frames[k - 1] ELSE NoFrame
Decoded == phase \in {"run", "done"} /\ last.res \in {"msg", "exc"}

\* C04: a frame that is completely available and admitted decodes to its payload (minus stripped
\* bytes) and consumes exactly its own bytes
C04_RoundTrip ==
    (Decoded /\ ~raw /\ cfg.kind \notin {"varlen", "packet"} /\ k - 1 <= Len(frames) /\ Admitted(cfg, CurFrame.p)
      /\ (pos - last.consumed) + CurFrame.size <= cut
      /\ CurFrame.hlen + CurFrame.p = CurFrame.size - (IF cfg.kind = "delim" THEN cfg.dl ELSE 0)
      /\ (cfg.kind = "lf" => CurFrame.hv = EncValue(cfg, CurFrame.p))) =>
        /\ last.res = "msg"
        /\ last.consumed = CurFrame.size
        /\ last.len = (CASE cfg.kind = "lf" -> CurFrame.size - cfg.s
                         [] cfg.kind = "varint" -> CurFrame.p
                         [] cfg.kind = "delim" -> IF cfg.strip THEN CurFrame.p ELSE CurFrame.p + cfg.dl
                         [] cfg.kind = "fixed" -> CurFrame.p)

\* C04: an encoder never emits a header that disagrees with its body
C04_EncoderHonest ==
    (phase \in {"run", "done"} /\ cfg.kind = "lf" /\ cfg.real /\ ~raw) =>
        \A i \in 1..Len(frames) : frames[i].hv = EncValue(cfg, frames[i].p)

\* C08: what is delivered was received completely, respects the maximum, is not a phantom
C08_DeliveredComplete == (Decoded /\ last.res = "msg") => last.complete
C08_WithinMax ==
    (Decoded /\ last.res = "msg") =>
        (CASE cfg.kind = "fixed" -> last.len <= cfg.n
           [] cfg.kind = "packet" -> TRUE
           [] OTHER -> last.len <= cfg.max)
C08_NoPhantom == (Decoded /\ last.res = "msg" /\ cfg.kind # "packet") => last.consumed >= 1
C08_BufferedBounded ==
    Decoded => (CASE cfg.kind = "fixed" -> last.consumed <= cfg.n
                  [] cfg.kind = "lf" -> last.consumed <= cfg.max + cfg.o + cfg.w
                  [] cfg.kind = "varint" -> last.consumed <= cfg.max + 5
                  [] cfg.kind = "packet" -> TRUE
                  [] OTHER -> last.consumed <= cfg.max)
C08_Progress == (Decoded /\ cfg.kind # "packet") => (last.res = "exc" \/ last.consumed >= 1)
=============================================================================
