----------------------------- MODULE Bootstrap -----------------------------
(***************************************************************************)
(* bootstrap.go / holder.go: listeners (registry, Sync's accept loop,       *)
(* Close), Connect, Shutdown (cancel, range over the registry, holder       *)
(* CloseAll) and the life cycle of the channels they create (abstracted:    *)
(* Channel.tla is the detailed model of one channel).  One action per gate. *)
(***************************************************************************)
EXTENDS Integers, Sequences, FiniteSets, TLC

CONSTANTS
    Listeners,    \* listener ids, e.g. {1, 2}
    Program,      \* sequence of user operations of the main goroutine: <<"listen", l>>, <<"connect">>, <<"lclose", l>>
    MaxIncoming,  \* how many connections the environment may deliver in total
    MaxChans,     \* bound on channels
    WithShutdown, \* TRUE: a goroutine calls Shutdown concurrently
    FixListen     \* TRUE: Sync re-checks "closed / context done" after Listen under the listener mutex (C13 repair)

VARIABLES
    mpc, mop,          \* main goroutine: pc, index of next operation
    lpc, lret,         \* accept loop per listener: pc, result passed to the Async callback
    registry,          \* listener ids registered in the bootstrap
    lacc,              \* per listener: the acceptor field "nil" | "set"
    lclosed,           \* per listener: Close was called (FixListen only)
    acc,               \* per listener: acceptor object state "none" | "open" | "closed"
    backlog,           \* per listener: delivered, not yet accepted connections
    incoming,          \* connections delivered so far
    bctx,              \* bootstrap context cancelled
    spc, stodo, scur, sch, \* Shutdown: pc, listeners left to close, listener being closed, channels left to close
    holder,            \* channel ids in the holder
    ch, rpc, owner,    \* per channel: lifecycle record, read-loop pc, who waits in serveChannel
    nch,               \* channels created so far
    lcur               \* per listener loop: channel it is serving

vars == <<mpc, mop, lpc, lret, registry, lacc, lclosed, acc, backlog, incoming, bctx,
          spc, stodo, scur, sch, holder, ch, rpc, owner, nch, lcur>>

Chans == 1..MaxChans
NoCh == [st |-> "none", closed |-> FALSE, tcloses |-> 0, inactives |-> 0]

Init ==
    /\ mpc = (IF Len(Program) > 0 THEN "m.op" ELSE "done") /\ mop = 1
    /\ lpc = [l \in Listeners |-> "none"] /\ lret = [l \in Listeners |-> "none"]
    /\ registry = {}
    /\ lacc = [l \in Listeners |-> "nil"] /\ lclosed = [l \in Listeners |-> FALSE]
    /\ acc = [l \in Listeners |-> "none"]
    /\ backlog = [l \in Listeners |-> 0] /\ incoming = 0
    /\ bctx = FALSE
    /\ spc = (IF WithShutdown THEN "sd.cancel" ELSE "none") /\ stodo = {} /\ scur = 0 /\ sch = <<>>
    /\ holder = {}
    /\ ch = [k \in Chans |-> NoCh] /\ rpc = [k \in Chans |-> "none"] /\ owner = [k \in Chans |-> -1]
    /\ nch = 0
    /\ lcur = [l \in Listeners |-> 0]

-----------------------------------------------------------------------------
(* channels *)

\* Channel.Close (atomic here): transport closed once, inactive once (holder forgets the channel),
\* a reader blocked in Read fails and comes back to its loop head
CloseCh(k, chv, rpcv, holderv) ==
    IF chv[k].closed
    THEN [c |-> chv, r |-> rpcv, h |-> holderv]
    ELSE [c |-> [chv EXCEPT ![k].closed = TRUE, ![k].tcloses = @ + 1, ![k].inactives = @ + 1],
          r |-> IF rpcv[k] = "r.blocked" THEN [rpcv EXCEPT ![k] = "r.check"] ELSE rpcv,
          h |-> holderv \ {k}]

\* bs.ServeChannel: new channel, read loop handed to the executor, caller waits for activation
NewChan(who) ==
    /\ nch < MaxChans
    /\ nch' = nch + 1
    /\ ch' = [ch EXCEPT ![nch + 1].st = "serving"]
    /\ rpc' = [rpc EXCEPT ![nch + 1] = "x.start"]
    /\ owner' = [owner EXCEPT ![nch + 1] = who]

RStart(k) ==
    /\ rpc[k] = "x.start"
    /\ rpc' = [rpc EXCEPT ![k] = "h.add"]
    /\ UNCHANGED <<mpc, mop, lpc, lret, registry, lacc, lclosed, acc, backlog, incoming, bctx,
                   spc, stodo, scur, sch, holder, ch, owner, nch, lcur>>

\* active event: the holder registers the channel, serveChannel returns to its caller
RAdd(k) ==
    /\ rpc[k] = "h.add"
    /\ holder' = holder \cup {k}
    /\ ch' = [ch EXCEPT ![k].st = "active"]
    /\ rpc' = [rpc EXCEPT ![k] = "r.check"]
    /\ IF owner[k] = 0
       THEN /\ mpc' = (IF mop <= Len(Program) THEN "m.op" ELSE "done") /\ UNCHANGED lpc
       ELSE /\ lpc' = [lpc EXCEPT ![owner[k]] = "a.accept"] /\ UNCHANGED mpc
    /\ UNCHANGED <<mop, lret, registry, lacc, lclosed, acc, backlog, incoming, bctx,
                   spc, stodo, scur, sch, owner, nch, lcur>>

\* loop head: context done (bootstrap cancelled or channel closed) => the loop ends with Close(nil)
RCheck(k) ==
    /\ rpc[k] = "r.check"
    /\ IF bctx \/ ch[k].closed
       THEN LET r == CloseCh(k, ch, [rpc EXCEPT ![k] = "done"], holder) IN
            /\ ch' = r.c /\ rpc' = r.r /\ holder' = r.h
       ELSE /\ rpc' = [rpc EXCEPT ![k] = "r.blocked"] /\ UNCHANGED <<ch, holder>>
    /\ UNCHANGED <<mpc, mop, lpc, lret, registry, lacc, lclosed, acc, backlog, incoming, bctx,
                   spc, stodo, scur, sch, owner, nch, lcur>>

-----------------------------------------------------------------------------
(* the main goroutine *)

Op == Program[mop]
AfterOp == IF mop < Len(Program) THEN "m.op" ELSE "done"

MOp ==
    /\ mpc = "m.op"
    /\ CASE Op[1] = "listen" ->
              \* Listen(url).Async(cb): register, hand Sync to the executor
              /\ registry' = registry \cup {Op[2]}
              /\ lpc' = [lpc EXCEPT ![Op[2]] = "x.start"]
              /\ mpc' = AfterOp /\ mop' = mop + 1
              /\ UNCHANGED <<lret, lacc, lclosed, acc, backlog, incoming, bctx, spc, stodo, scur, sch, holder, ch, rpc, owner, nch, lcur>>
         [] Op[1] = "connect" ->
              /\ mpc' = "b.connect" /\ mop' = mop + 1
              /\ UNCHANGED <<lpc, lret, registry, lacc, lclosed, acc, backlog, incoming, bctx, spc, stodo, scur, sch, holder, ch, rpc, owner, nch, lcur>>
         [] Op[1] = "lclose" ->
              /\ mpc' = "l.close" /\ mop' = mop + 1
              /\ UNCHANGED <<lpc, lret, registry, lacc, lclosed, acc, backlog, incoming, bctx, spc, stodo, scur, sch, holder, ch, rpc, owner, nch, lcur>>

MConnect ==
    /\ mpc = "b.connect"
    /\ NewChan(0)
    /\ mpc' = "serving"
    /\ UNCHANGED <<mop, lpc, lret, registry, lacc, lclosed, acc, backlog, incoming, bctx,
                   spc, stodo, scur, sch, holder, lcur>>

\* listener.Close by process who ("M" or "SD") on listener l: deregister, close the acceptor if there is one
LCloseBy(l) ==
    /\ registry' = registry \ {l}
    /\ lclosed' = [lclosed EXCEPT ![l] = TRUE]

MLClose ==
    /\ mpc = "l.close"
    /\ LET l == Program[mop - 1][2] IN
       /\ LCloseBy(l)
       /\ mpc' = (IF lacc[l] = "set" THEN "a.close" ELSE (IF mop <= Len(Program) THEN "m.op" ELSE "done"))
    /\ UNCHANGED <<mop, lpc, lret, lacc, acc, backlog, incoming, bctx, spc, stodo, scur, sch, holder, ch, rpc, owner, nch, lcur>>

\* acceptor.Close: a loop blocked in Accept fails and Sync returns at once (no gate on that path):
\* ErrServerClosed if the bootstrap context is done, the accept error otherwise
AccCloseLpc(l) == IF lpc[l] = "a.blocked" THEN [lpc EXCEPT ![l] = "done"] ELSE lpc
AccCloseLret(l) == IF lpc[l] = "a.blocked" THEN [lret EXCEPT ![l] = IF bctx THEN "closed" ELSE "err"] ELSE lret

MAClose ==
    /\ mpc = "a.close"
    /\ LET l == Program[mop - 1][2] IN
       /\ acc' = [acc EXCEPT ![l] = "closed"]
       /\ lpc' = AccCloseLpc(l) /\ lret' = AccCloseLret(l)
    /\ mpc' = (IF mop <= Len(Program) THEN "m.op" ELSE "done")
    /\ UNCHANGED <<mop, registry, lacc, lclosed, backlog, incoming, bctx, spc, stodo, scur, sch, holder, ch, rpc, owner, nch, lcur>>

-----------------------------------------------------------------------------
(* the accept loop: listener.Sync run by the executor *)

LStart(l) ==
    /\ lpc[l] = "x.start" /\ lpc' = [lpc EXCEPT ![l] = "l.sync"]
    /\ UNCHANGED <<mpc, mop, lret, registry, lacc, lclosed, acc, backlog, incoming, bctx, spc, stodo, scur, sch, holder, ch, rpc, owner, nch, lcur>>

LSync(l) ==
    /\ lpc[l] = "l.sync"
    /\ IF lacc[l] = "set"
       THEN /\ lpc' = [lpc EXCEPT ![l] = "done"] /\ lret' = [lret EXCEPT ![l] = "dup"]
       ELSE /\ lpc' = [lpc EXCEPT ![l] = "f.listen"] /\ UNCHANGED lret
    /\ UNCHANGED <<mpc, mop, registry, lacc, lclosed, acc, backlog, incoming, bctx, spc, stodo, scur, sch, holder, ch, rpc, owner, nch, lcur>>

\* factory.Listen creates the acceptor; the result is stored in the listener (repaired code: only
\* if the listener was not closed and the bootstrap not shut down meanwhile)
LListen(l) ==
    /\ lpc[l] = "f.listen"
    /\ acc' = [acc EXCEPT ![l] = "open"]
    /\ IF FixListen /\ (lclosed[l] \/ bctx)
       THEN /\ lpc' = [lpc EXCEPT ![l] = "a.close"] /\ UNCHANGED lacc
       ELSE /\ lpc' = [lpc EXCEPT ![l] = "l.listened"] /\ lacc' = [lacc EXCEPT ![l] = "set"]
    /\ UNCHANGED <<mpc, mop, lret, registry, lclosed, backlog, incoming, bctx, spc, stodo, scur, sch, holder, ch, rpc, owner, nch, lcur>>

\* repaired code: the late acceptor is closed again and Sync reports ErrServerClosed
LLateClose(l) ==
    /\ lpc[l] = "a.close"
    /\ acc' = [acc EXCEPT ![l] = "closed"]
    /\ lpc' = [lpc EXCEPT ![l] = "done"] /\ lret' = [lret EXCEPT ![l] = "closed"]
    /\ UNCHANGED <<mpc, mop, registry, lacc, lclosed, backlog, incoming, bctx, spc, stodo, scur, sch, holder, ch, rpc, owner, nch, lcur>>

LListened(l) ==
    /\ lpc[l] = "l.listened" /\ lpc' = [lpc EXCEPT ![l] = "a.accept"]
    /\ UNCHANGED <<mpc, mop, lret, registry, lacc, lclosed, acc, backlog, incoming, bctx, spc, stodo, scur, sch, holder, ch, rpc, owner, nch, lcur>>

AcceptFailed(l) ==
    /\ lpc' = [lpc EXCEPT ![l] = "done"]
    /\ lret' = [lret EXCEPT ![l] = IF bctx THEN "closed" ELSE "err"]

LAccept(l) ==
    /\ lpc[l] = "a.accept"
    /\ IF acc[l] = "closed"
       THEN /\ AcceptFailed(l) /\ UNCHANGED <<backlog, lcur>>
       ELSE IF backlog[l] > 0
            THEN /\ backlog' = [backlog EXCEPT ![l] = @ - 1]
                 /\ lpc' = [lpc EXCEPT ![l] = "l.serve"] /\ UNCHANGED <<lret, lcur>>
            ELSE /\ lpc' = [lpc EXCEPT ![l] = "a.blocked"] /\ UNCHANGED <<lret, backlog, lcur>>
    /\ UNCHANGED <<mpc, mop, registry, lacc, lclosed, acc, incoming, bctx, spc, stodo, scur, sch, holder, ch, rpc, owner, nch>>

LServe(l) ==
    /\ lpc[l] = "l.serve"
    /\ NewChan(l)
    /\ lpc' = [lpc EXCEPT ![l] = "serving"]
    /\ lcur' = [lcur EXCEPT ![l] = nch + 1]
    /\ UNCHANGED <<mpc, mop, lret, registry, lacc, lclosed, acc, backlog, incoming, bctx, spc, stodo, scur, sch, holder>>

\* environment: a client connects to listener l
Incoming(l) ==
    /\ incoming < MaxIncoming /\ acc[l] = "open"
    /\ incoming' = incoming + 1
    /\ IF lpc[l] = "a.blocked"
       THEN /\ lpc' = [lpc EXCEPT ![l] = "l.serve"] /\ UNCHANGED backlog
       ELSE /\ backlog' = [backlog EXCEPT ![l] = @ + 1] /\ UNCHANGED lpc
    /\ UNCHANGED <<mpc, mop, lret, registry, lacc, lclosed, acc, bctx, spc, stodo, scur, sch, holder, ch, rpc, owner, nch, lcur>>

-----------------------------------------------------------------------------
(* Shutdown *)

SCancel ==
    /\ spc = "sd.cancel" /\ bctx' = TRUE /\ spc' = "sd.range"
    /\ UNCHANGED <<mpc, mop, lpc, lret, registry, lacc, lclosed, acc, backlog, incoming, stodo, scur, sch, holder, ch, rpc, owner, nch, lcur>>

\* Range over the registry: the callback is entered for one registered listener at a time (any
\* order); listeners deregistered meanwhile are skipped.  The next listener is chosen before the
\* hook at the top of its Close is reached.
SNextListener(todo, reg) ==
    IF todo \cap reg = {}
    THEN /\ spc' = "sd.closeall" /\ stodo' = {} /\ UNCHANGED scur
    ELSE \E l \in todo \cap reg : /\ spc' = "l.close" /\ scur' = l /\ stodo' = todo \ {l}

SRange ==
    /\ spc = "sd.range"
    /\ SNextListener(registry, registry)
    /\ UNCHANGED <<mpc, mop, lpc, lret, registry, lacc, lclosed, acc, backlog, incoming, bctx, sch, holder, ch, rpc, owner, nch, lcur>>

SLClose ==
    /\ spc = "l.close"
    /\ LCloseBy(scur)
    /\ IF lacc[scur] = "set"
       THEN /\ spc' = "a.close" /\ UNCHANGED <<stodo, scur>>
       ELSE SNextListener(stodo, registry \ {scur})
    /\ UNCHANGED <<mpc, mop, lpc, lret, lacc, acc, backlog, incoming, bctx, sch, holder, ch, rpc, owner, nch, lcur>>

SAClose ==
    /\ spc = "a.close"
    /\ acc' = [acc EXCEPT ![scur] = "closed"]
    /\ lpc' = AccCloseLpc(scur) /\ lret' = AccCloseLret(scur)
    /\ SNextListener(stodo, registry)
    /\ UNCHANGED <<mpc, mop, registry, lacc, lclosed, backlog, incoming, bctx, sch, holder, ch, rpc, owner, nch, lcur>>

SCloseAll ==
    /\ spc = "sd.closeall" /\ spc' = "h.closeall"
    /\ UNCHANGED <<mpc, mop, lpc, lret, registry, lacc, lclosed, acc, backlog, incoming, bctx, stodo, scur, sch, holder, ch, rpc, owner, nch, lcur>>

\* CloseAll: swap the map under the mutex, then close each channel outside it
SSwap ==
    /\ spc = "h.closeall"
    /\ \E s \in [1..Cardinality(holder) -> holder] :
          /\ \A i, j \in 1..Cardinality(holder) : i # j => s[i] # s[j]
          /\ sch' = s
    /\ holder' = {}
    /\ spc' = (IF holder = {} THEN "done" ELSE "h.close")
    /\ UNCHANGED <<mpc, mop, lpc, lret, registry, lacc, lclosed, acc, backlog, incoming, bctx, stodo, scur, ch, rpc, owner, nch, lcur>>

SCloseOne ==
    /\ spc = "h.close"
    /\ LET r == CloseCh(Head(sch), ch, rpc, holder) IN
       /\ ch' = r.c /\ rpc' = r.r /\ holder' = r.h
    /\ sch' = Tail(sch)
    /\ spc' = (IF Tail(sch) = <<>> THEN "done" ELSE "h.close")
    /\ UNCHANGED <<mpc, mop, lpc, lret, registry, lacc, lclosed, acc, backlog, incoming, bctx, stodo, scur, owner, nch, lcur>>

-----------------------------------------------------------------------------
MStep == MOp \/ MConnect \/ MLClose \/ MAClose
LStep(l) == LStart(l) \/ LSync(l) \/ LListen(l) \/ LLateClose(l) \/ LListened(l) \/ LAccept(l) \/ LServe(l)
RStep(k) == RStart(k) \/ RAdd(k) \/ RCheck(k)
SStep == SCancel \/ SRange \/ SLClose \/ SAClose \/ SCloseAll \/ SSwap \/ SCloseOne

Next == MStep \/ SStep \/ (\E l \in Listeners : LStep(l) \/ Incoming(l)) \/ (\E k \in Chans : RStep(k))

Spec == Init /\ [][Next]_vars
FairSpec == Spec /\ WF_vars(MStep) /\ WF_vars(SStep) /\ (\A l \in Listeners : WF_vars(LStep(l))) /\ (\A k \in Chans : WF_vars(RStep(k)))

-----------------------------------------------------------------------------
TypeOK ==
    /\ nch <= MaxChans /\ incoming <= MaxIncoming
    /\ \A k \in Chans : ch[k].tcloses <= 1 /\ ch[k].inactives <= 1

Quiesced ==
    /\ mpc \in {"done", "serving"}
    /\ spc \in {"done", "none"}
    /\ \A l \in Listeners : lpc[l] \in {"none", "done", "a.blocked", "serving"}
    /\ \A k \in Chans : rpc[k] \in {"none", "done", "r.blocked"}

UserClosed(l) == \E i \in 1..Len(Program) : Program[i] = <<"lclose", l>>

\* C13: after Shutdown, when everything has come to rest
C13_Final ==
    (spc = "done" /\ Quiesced) =>
        /\ bctx
        /\ \A l \in Listeners :
              /\ acc[l] # "open"                                   \* no acceptor left open
              /\ lpc[l] \notin {"a.blocked", "serving"}            \* nobody left accepting
              /\ (lpc[l] = "done" /\ ~UserClosed(l)) => lret[l] \in {"closed", "dup"}
        /\ \A k \in Chans : ch[k].st # "none" =>
              (ch[k].closed /\ ch[k].tcloses = 1 /\ ch[k].inactives = 1 /\ rpc[k] = "done")
        /\ mpc = "done"

C13_Live == (spc = "done") ~> Quiesced
=============================================================================
