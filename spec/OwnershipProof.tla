--------------------------- MODULE OwnershipProof ---------------------------
(* TLAPS proof that IndInv is an inductive invariant of Ownership!Spec (unbounded). *)
EXTENDS Ownership, TLAPS

THEOREM Safety == Spec => []IndInv
<1>1. Init => IndInv
  BY DEF Init, IndInv, TypeOK, OneOwner, Responsible
<1>2. IndInv /\ [Next]_vars => IndInv'
  <2> SUFFICES ASSUME IndInv, [Next]_vars PROVE IndInv'
    OBVIOUS
  <2> USE DEF IndInv, TypeOK, OneOwner, Responsible
  <2>1. CASE Enqueue BY <2>1 DEF Enqueue
  <2>2. CASE Cas BY <2>2 DEF Cas
  <2>3. CASE Start BY <2>3 DEF Start
  <2>4. CASE Poll BY <2>4 DEF Poll
  <2>5. CASE PollWake BY <2>5 DEF PollWake
  <2>6. CASE SawEmpty BY <2>6 DEF SawEmpty
  <2>7. CASE Release BY <2>7 DEF Release
  <2>8. CASE Recheck BY <2>8 DEF Recheck
  <2>9. CASE Recas BY <2>9 DEF Recas
  <2>10. CASE UNCHANGED vars BY <2>10 DEF vars
  <2> QED BY <2>1, <2>2, <2>3, <2>4, <2>5, <2>6, <2>7, <2>8, <2>9, <2>10 DEF Next
<1>3. QED BY <1>1, <1>2, PTL DEF Spec

COROLLARY Spec => []Responsible
  BY Safety, PTL DEF IndInv
=============================================================================
