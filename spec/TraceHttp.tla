------------------------------- MODULE TraceHttp -------------------------------
EXTENDS Http, Json, IOUtils
Trace == ndJsonDeserialize(IOEnv.TRACE_FILE)
VARIABLE l
TraceInit == Init /\ l = 1 /\ TLCSet(1, 1)
Reset ==
    /\ reqs' = <<>> /\ progs' = <<>> /\ i' = 1 /\ open' = TRUE /\ desync' = FALSE
    /\ out' = <<>> /\ handled' = <<>> /\ closes' = <<>> /\ phase' = "idle"
InSeq(s, x) == \E k \in 1..Len(s) : s[k] = x
TraceStep ==
    /\ l <= Len(Trace)
    /\ l' = l + 1
    /\ LET e == Trace[l] IN
       CASE e.op = "reset" -> Reset
         [] e.op = "start" -> Start(e.reqs, e.progs)
         [] e.op = "req" ->
              /\ (Serve \/ Skip)
              /\ InSeq(handled', e.i) = e.handled
              /\ (\E k \in 1..Len(out') : out'[k].req = e.i) = e.responded
              \* the state of the connection is observable at the end only
              /\ (e.i = Len(reqs)) => (open' = e.open)
TraceSpec == TraceInit /\ [][TraceStep]_<<vars, l>>
Mark == (l > TLCGet(1) => TLCSet(1, l)) /\ TRUE
TraceAccepted == PrintT(<<"HIGHWATER", TLCGet(1)>>) /\ TLCGet(1) = Len(Trace) + 1
=============================================================================
