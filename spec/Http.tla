-------------------------------- MODULE Http --------------------------------
(***************************************************************************)
(* codec/xhttp server side: the per-connection request loop over a lazily  *)
(* consumed stream (requestCodec), the handler adapter with its deferred   *)
(* Flush, and the response writer's state machine (header, chunk writer,   *)
(* pooled buffer released by Flush/Close, close decision).                 *)
(* A connection receives a sequence of requests; each is served by a       *)
(* handler program.                                                        *)
(***************************************************************************)
EXTENDS Integers, Sequences, FiniteSets, TLC

CONSTANTS
    Reqs,       \* set of request shapes (records, see below)
    Progs,      \* set of handler programs (records)
    MaxReqs,    \* requests per connection
    FixDrain,   \* TRUE: the request body is drained after the handler returned        (C15 repair)
    FixFlush    \* TRUE: an explicit Flush does not finalise the response writer        (C15 repair)

(* request: [ver |-> 10 | 11, close |-> BOOLEAN (Connection: close), body |-> "none" | "cl" | "chunked"]
   program: [read |-> "none" | "all", resp |-> "cl" | "chunked" | "neither", flush |-> BOOLEAN (handler calls Flush), empty |-> BOOLEAN (writes nothing)] *)

VARIABLES reqs, progs, i, open, desync, out, handled, closes, phase

vars == <<reqs, progs, i, open, desync, out, handled, closes, phase>>

Init ==
    /\ reqs = <<>> /\ progs = <<>> /\ i = 1 /\ open = TRUE /\ desync = FALSE
    /\ out = <<>> /\ handled = <<>> /\ closes = <<>> /\ phase = "idle"

Start(rs, ps) ==
    /\ phase = "idle" /\ Len(rs) = Len(ps)
    /\ reqs' = rs /\ progs' = ps /\ i' = 1 /\ open' = TRUE /\ desync' = FALSE
    /\ out' = <<>> /\ handled' = <<>> /\ closes' = <<>> /\ phase' = "run"

\* http.ReadRequest marks HTTP/1.0 (without keep-alive) and "Connection: close" requests for closing
WantsClose(r) == r.close \/ r.ver = 10
SelfDelimiting(p) == p.resp \in {"cl", "chunked"}

\* serve request i (one iteration of requestCodec's loop)
Serve ==
    /\ phase = "run" /\ i <= Len(reqs) /\ open
    /\ LET r == reqs[i]
           p == progs[i]
       IN IF desync
          THEN \* the next thing on the stream is the unread body of the previous request: the parser fails, the
               \* adapter's exception handler closes the connection, no response
               /\ open' = FALSE /\ closes' = Append(closes, [after |-> Len(out), why |-> "parse"])
               /\ UNCHANGED <<out, handled, desync>>
          ELSE LET leftover == r.body # "none" /\ p.read # "all" /\ ~FixDrain
                   \* the handler's own Flush releases the writer; the adapter's deferred Flush then fails
                   flushCrash == p.flush /\ ~FixFlush
                   closeNow == WantsClose(r) \/ ~SelfDelimiting(p) \/ flushCrash
               IN /\ handled' = Append(handled, i)
                  /\ out' = Append(out, [req |-> i, mode |-> p.resp, complete |-> TRUE])
                  /\ desync' = leftover
                  /\ open' = ~closeNow
                  /\ closes' = IF closeNow THEN Append(closes, [after |-> Len(out) + 1, why |-> IF flushCrash /\ ~WantsClose(r) /\ SelfDelimiting(p) THEN "crash" ELSE "close"]) ELSE closes
    /\ i' = i + 1
    /\ phase' = IF i = Len(reqs) THEN "done" ELSE "run"
    /\ UNCHANGED <<reqs, progs>>

\* the connection is already closed: the remaining requests are never read
Skip ==
    /\ phase = "run" /\ i <= Len(reqs) /\ ~open
    /\ i' = i + 1 /\ phase' = IF i = Len(reqs) THEN "done" ELSE "run"
    /\ UNCHANGED <<reqs, progs, open, desync, out, handled, closes>>

RSeqs == UNION {[1..n -> Reqs] : n \in 1..MaxReqs}
Next == (\E rs \in RSeqs : \E ps \in [1..Len(rs) -> Progs] : Start(rs, ps)) \/ Serve \/ Skip
Spec == Init /\ [][Next]_vars

MCInit ==
    \E rs \in RSeqs : \E ps \in [1..Len(rs) -> Progs] :
        /\ reqs = rs /\ progs = ps /\ i = 1 /\ open = TRUE /\ desync = FALSE
        /\ out = <<>> /\ handled = <<>> /\ closes = <<>> /\ phase = "run"
MCSpec == MCInit /\ [][Serve \/ Skip]_vars

-----------------------------------------------------------------------------
\* the requests that must be answered: all up to and including the first one after which the
\* connection is legitimately closed (asked to close, or response not self-delimiting)
RECURSIVE Due(_, _, _)
Due(rs, ps, k) ==
    IF k > Len(rs) THEN 0
    ELSE IF WantsClose(rs[k]) \/ ~SelfDelimiting(ps[k]) THEN k ELSE Due(rs, ps, k + 1)
DueCount == LET d == Due(reqs, progs, 1) IN IF d = 0 THEN Len(reqs) ELSE d

\* C15: one response per request, in order
C15_OnePerRequest ==
    phase = "done" =>
        /\ Len(out) = DueCount
        /\ \A k \in 1..Len(out) : out[k].req = k /\ out[k].complete
        /\ handled = [k \in 1..DueCount |-> k]
\* C15: the connection stays open only if the request did not ask to close and the response is self-delimiting,
\* and it is closed only after the response
C15_KeepAliveRule ==
    \A k \in 1..Len(out) :
        (WantsClose(reqs[k]) \/ ~SelfDelimiting(progs[k])) => (\E c \in 1..Len(closes) : closes[c].after = k)
C15_NoEarlyClose ==
    \A c \in 1..Len(closes) : closes[c].why = "close" /\ closes[c].after >= 1
=============================================================================
