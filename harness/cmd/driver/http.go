package main

// HTTP driver (C15): request sequences (pipelined, fragmented) through the real ServerCodec +
// Handler adapter on a real channel over the mock transport; handler programs decide how much of the
// body is read and how the response is produced; the output is parsed with net/http.ReadResponse.

import (
	"bufio"
	"bytes"
	"context"
	"fmt"
	"io"
	"math/rand"
	"net/http"
	"strconv"
	"strings"
	"sync"
	"time"

	netty "github.com/go-netty/go-netty"
	"github.com/go-netty/go-netty/codec/xhttp"

	"verifharness/mock"
	"verifharness/sched"
)

type HttpReq struct {
	Ver   int    `json:"ver"`
	Close bool   `json:"close"`
	Body  string `json:"body"` // none cl chunked
	BLen  int    `json:"blen"`
}

type HttpProg struct {
	Read  string `json:"read"` // none all
	Resp  string `json:"resp"` // cl chunked neither
	Flush bool   `json:"flush"`
	Size  int    `json:"size"`
}

type HttpCase struct {
	ID    string     `json:"id"`
	Reqs  []HttpReq  `json:"reqs"`
	Progs []HttpProg `json:"progs"`
	Frag  string     `json:"frag"` // whole one rand perreq
	Async bool       `json:"async"`
	Seed  int64      `json:"seed"`
}

// httpStyle: how the handler of request i starts its response (derived from the case seed so that the case format and
// the specification's program record stay as they are).
func httpStyle(seed int64, i int, p HttpProg) string {
	switch (seed + 2*int64(i)) % 5 {
	case 1:
		if p.Flush {
			return "flushfirst"
		}
	case 3:
		return "implicit"
	}
	return "explicit"
}

func httpStatus(seed int64, i int, p HttpProg) int {
	if httpStyle(seed, i, p) == "explicit" {
		return 200 + i
	}
	return 200
}

type HttpEvent struct {
	Case      string                   `json:"case,omitempty"`
	Op        string                   `json:"op"`
	Reqs      []map[string]interface{} `json:"reqs,omitempty"`
	Progs     []map[string]interface{} `json:"progs,omitempty"`
	I         int                      `json:"i"`
	Handled   bool                     `json:"handled"`
	Responded bool                     `json:"responded"`
	Open      bool                     `json:"open"`
}

type HttpResult struct {
	ID         string         `json:"id"`
	Events     []HttpEvent    `json:"events"`
	Fails      []Fail         `json:"fails"`
	HarnessErr string         `json:"harness_err,omitempty"`
	Diverged   int            `json:"diverged"`
	Actions    map[string]int `json:"actions"`
}

// reqBody: lines of words, so that an unread body can never be taken for (part of) a request line
func reqBody(seed int64, i, n int) []byte {
	b := make([]byte, 0, n+16)
	for k := 0; len(b) < n; k++ {
		b = append(b, []byte(fmt.Sprintf("body %d of %d line %d\r\n", i, seed%97, k))...)
	}
	return b[:n]
}

func respBody(seed int64, i, n int) []byte {
	b := make([]byte, n)
	for k := range b {
		b[k] = 'A' + byte((int(seed)+i*5+k)%26)
	}
	return b
}

func runHttpCase(c *HttpCase) *HttpResult {
	res := &HttpResult{ID: c.ID, Fails: []Fail{}, Actions: map[string]int{}}
	failed := map[string]bool{}
	var fmu sync.Mutex
	fail := func(key, msg string) {
		fmu.Lock()
		if !failed[key] {
			failed[key] = true
			res.Fails = append(res.Fails, Fail{Prop: "C15", Key: key, Msg: msg})
		}
		fmu.Unlock()
	}
	netty.VerifHook = nil
	rnd := rand.New(rand.NewSource(c.Seed))
	// ---- the wire
	var wire []byte
	var bounds []int
	var headEnds []int // wire offsets at which a request head (request line + headers + empty line) ends
	for i, r := range c.Reqs {
		var b bytes.Buffer
		method := "GET"
		if r.Body != "none" {
			method = "POST"
		}
		fmt.Fprintf(&b, "%s /r%d?x=%d HTTP/1.%d\r\nHost: verif\r\nX-Req: %d\r\n", method, i+1, i+1, r.Ver-10, i+1)
		if r.Close {
			b.WriteString("Connection: close\r\n")
		}
		body := reqBody(c.Seed, i+1, r.BLen)
		switch r.Body {
		case "cl":
			fmt.Fprintf(&b, "Content-Length: %d\r\n\r\n", len(body))
			b.Write(body)
		case "chunked":
			b.WriteString("Transfer-Encoding: chunked\r\n\r\n")
			for off := 0; off < len(body); {
				k := 1 + rnd.Intn(minInt(len(body)-off, 300))
				fmt.Fprintf(&b, "%x\r\n", k)
				b.Write(body[off : off+k])
				b.WriteString("\r\n")
				off += k
			}
			b.WriteString("0\r\n\r\n")
		default:
			b.WriteString("\r\n")
		}
		headEnds = append(headEnds, len(wire)+bytes.Index(b.Bytes(), []byte("\r\n\r\n"))+4)
		wire = append(wire, b.Bytes()...)
		bounds = append(bounds, len(wire))
	}
	// ---- the server
	var mu sync.Mutex
	handled := map[int]bool{}
	var order []int
	handler := http.HandlerFunc(func(w http.ResponseWriter, r *http.Request) {
		i, _ := strconv.Atoi(r.Header.Get("X-Req"))
		mu.Lock()
		dup := handled[i]
		handled[i] = true
		order = append(order, i)
		mu.Unlock()
		if i < 1 || i > len(c.Reqs) {
			fail("request-garbled", fmt.Sprintf("the handler was invoked with a request that was never sent: %s %s X-Req=%q", r.Method, r.URL, r.Header.Get("X-Req")))
			return
		}
		if dup {
			fail("request-twice", fmt.Sprintf("the handler was invoked twice for request %d", i))
		}
		rq, p := c.Reqs[i-1], c.Progs[i-1]
		wantMethod := "GET"
		if rq.Body != "none" {
			wantMethod = "POST"
		}
		if r.Method != wantMethod || r.URL.Path != fmt.Sprintf("/r%d", i) || r.URL.Query().Get("x") != strconv.Itoa(i) || r.ProtoMinor != rq.Ver-10 {
			fail("request-mismatch", fmt.Sprintf("request %d reached the handler as %s %s %s", i, r.Method, r.URL, r.Proto))
		}
		if p.Read == "all" {
			b, err := io.ReadAll(r.Body)
			if err != nil || !bytes.Equal(b, reqBody(c.Seed, i, rq.BLen)) {
				fail("request-body", fmt.Sprintf("request %d (%s body, %d bytes): the handler read %d bytes, err %v", i, rq.Body, rq.BLen, len(b), err))
			}
		}
		w.Header().Set("X-Resp", strconv.Itoa(i))
		body := respBody(c.Seed, i, p.Size)
		switch p.Resp {
		case "cl":
			w.Header().Set("Content-Length", strconv.Itoa(len(body)))
		case "chunked":
			w.Header().Set("Transfer-Encoding", "chunked")
		}
		// which of WriteHeader / Write / Flush comes first is part of the handler program: an explicit WriteHeader, an
		// implicit one by the first Write (status 200), or a Flush before anything was written (status 200 as well)
		switch httpStyle(c.Seed, i, p) {
		case "flushfirst":
			w.(http.Flusher).Flush()
		case "implicit":
		default:
			w.WriteHeader(200 + i)
		}
		// an explicit Flush either after everything was written or in the middle of the body (streaming)
		midFlush := p.Flush && (c.Seed+int64(i))%2 == 0
		for off := 0; off < len(body); {
			k := 1 + rnd.Intn(len(body)-off)
			w.Write(body[off : off+k])
			off += k
			if off < len(body) && rnd.Intn(2) == 0 {
				w.Write(body[off:off]) // an empty Write is a no-op
			}
			if midFlush {
				w.(http.Flusher).Flush()
				midFlush = false
			}
		}
		if p.Flush {
			w.(http.Flusher).Flush()
		}
	})
	tr := mock.NewTransport(nil)
	pl := netty.NewPipeline()
	pl.AddLast(xhttp.ServerCodec(), xhttp.Handler(handler))
	var ch netty.Channel
	if c.Async {
		ch = netty.NewAsyncWriteChannel(8, true)(1, context.Background(), pl, tr, netty.AsyncExecutor())
	} else {
		ch = netty.NewChannel()(1, context.Background(), pl, tr, netty.AsyncExecutor())
	}
	// feed the wire in fragments
	for off := 0; off < len(wire); {
		k := len(wire) - off
		switch c.Frag {
		case "one":
			k = 1
		case "rand":
			k = 1 + rnd.Intn(minInt(k, 200))
		case "perreq":
			for _, b := range bounds {
				if b > off {
					k = b - off
					break
				}
			}
		case "heads":
			// every request head arrives in a read of its own; its body arrives together with the next head
			for _, b := range headEnds {
				if b > off {
					k = b - off
					break
				}
			}
		}
		tr.Feed(mock.ReadItem{Data: append([]byte(nil), wire[off:off+k]...)})
		off += k
	}
	pl.ServeChannel(ch)
	// wait until nothing can move any more: every other goroutine is blocked waiting for somebody else (read from
	// the goroutine statuses, not guessed from a period of silence - Close of a queued channel sleeps 100 ms at a time)
	if !sched.WaitQuiet(30 * time.Second) {
		res.HarnessErr = "the exchange did not come to rest within 30s"
		return res
	}
	time.Sleep(2 * time.Millisecond)
	stream, flushedTo, _, _ := tr.Snapshot()
	closedAt := tr.StreamAtClose
	isClosed := tr.IsClosed()
	if isClosed && tr.UnflushedAtClose > 0 {
		fail("closed-before-flush", fmt.Sprintf("the connection was closed while %d response bytes were written but not flushed", tr.UnflushedAtClose))
	}
	if !isClosed && flushedTo != len(stream) {
		fail("unflushed-response", fmt.Sprintf("%d response bytes written but not flushed on a connection kept open", len(stream)-flushedTo))
	}
	// ---- parse the responses
	br := bufio.NewReader(bytes.NewReader(stream))
	responded := map[int]bool{}
	selfDelim := map[int]bool{} // as a standard parser sees the response: explicit length or (HTTP/1.1) chunked
	nresp := 0
	respEnd := []int{}
	for {
		if _, err := br.Peek(1); err != nil {
			break
		}
		rsp, err := http.ReadResponse(br, nil)
		if err != nil {
			fail("response-malformed", fmt.Sprintf("response #%d is not parseable by net/http: %v", nresp+1, err))
			break
		}
		body, berr := io.ReadAll(rsp.Body)
		i, _ := strconv.Atoi(rsp.Header.Get("X-Resp"))
		nresp++
		if i != nresp {
			fail("response-order", fmt.Sprintf("response #%d on the wire answers request %d", nresp, i))
		}
		if i >= 1 && i <= len(c.Progs) {
			p := c.Progs[i-1]
			if responded[i] {
				fail("response-twice", fmt.Sprintf("two responses for request %d", i))
			}
			responded[i] = true
			selfDelim[i] = rsp.ContentLength >= 0 || (rsp.ProtoAtLeast(1, 1) && len(rsp.TransferEncoding) > 0 && rsp.TransferEncoding[0] == "chunked")
			if rsp.StatusCode != httpStatus(c.Seed, i, p) || berr != nil || !bytes.Equal(body, respBody(c.Seed, i, p.Size)) {
				fail("response-content/"+p.Resp, fmt.Sprintf("response %d (%s, %d bytes): parsed status %d, %d body bytes, err %v", i, p.Resp, p.Size, rsp.StatusCode, len(body), berr))
			}
			if rsp.ProtoMinor != c.Reqs[i-1].Ver-10 {
				fail("response-version", fmt.Sprintf("response %d has HTTP/1.%d for an HTTP/1.%d request", i, rsp.ProtoMinor, c.Reqs[i-1].Ver-10))
			}
		}
		respEnd = append(respEnd, len(stream)-br.Buffered())
	}
	// the black-box rules of the property
	due := len(c.Reqs)
	for k, r := range c.Reqs {
		p := c.Progs[k]
		if r.Close || r.Ver == 10 || p.Resp == "neither" {
			due = k + 1
			break
		}
	}
	for i := 1; i <= due; i++ {
		if !handled[i] {
			fail("request-not-handled", fmt.Sprintf("request %d of %d (pipelined on one connection) never reached the handler", i, len(c.Reqs)))
		}
		if !responded[i] {
			fail("response-missing", fmt.Sprintf("no response for request %d of %d", i, len(c.Reqs)))
		}
	}
	last1 := c.Reqs[due-1]
	if (last1.Close || last1.Ver == 10 || (c.Progs[due-1].Resp == "neither" && !selfDelim[due])) && !isClosed {
		fail("not-closed", fmt.Sprintf("the connection is still open after request %d which requires closing it", due))
	}
	// ---- events for the specification
	rm := func(r HttpReq) map[string]interface{} {
		return map[string]interface{}{"ver": r.Ver, "close": r.Close, "body": r.Body}
	}
	pm := func(p HttpProg) map[string]interface{} {
		return map[string]interface{}{"read": p.Read, "resp": p.Resp, "flush": p.Flush}
	}
	st := HttpEvent{Op: "start"}
	for k := range c.Reqs {
		st.Reqs = append(st.Reqs, rm(c.Reqs[k]))
		st.Progs = append(st.Progs, pm(c.Progs[k]))
	}
	res.Events = append(res.Events, st)
	closedAfter := -1 // number of complete responses on the wire when the connection was closed
	if isClosed {
		closedAfter = 0
		for _, e := range respEnd {
			if e <= closedAt {
				closedAfter++
			}
		}
	}
	for i := 1; i <= len(c.Reqs); i++ {
		res.Events = append(res.Events, HttpEvent{Op: "req", I: i, Handled: handled[i], Responded: responded[i], Open: !isClosed})
	}
	_ = closedAfter
	res.Actions["requests"] = len(c.Reqs)
	if !isClosed {
		ch.Close(nil)
	}
	_ = strings.TrimSpace
	return res
}
