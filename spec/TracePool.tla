------------------------------ MODULE TracePool ------------------------------
(* Trace validation of recorded Get/Put histories of the real pbytes/pbuffer pools. *)
EXTENDS Pool, Json, IOUtils

Trace == ndJsonDeserialize(IOEnv.TRACE_FILE)
VARIABLE l

TraceInit == Init /\ l = 1 /\ TLCSet(1, 1)

Reset ==
    /\ shard' = [i \in 0..(NShards - 1) |-> {}]
    /\ capOf' = [b \in Bufs |-> 0]
    /\ owner' = [b \in Bufs |-> "none"]
    /\ nid' = 1 /\ nops' = 0
    /\ last' = [op |-> "init", n |-> 0, id |-> 0, cap |-> 0]

TraceStep ==
    /\ l <= Len(Trace)
    /\ l' = l + 1
    /\ LET e == Trace[l] IN
       IF e.op = "reset" THEN Reset
       ELSE /\ \/ e.op = "get" /\ (GetHit(e.n, e.id) \/ (nid = e.id /\ GetMiss(e.n)))
               \/ e.op = "put" /\ Put(e.id)
               \/ e.op = "putf" /\ nid = e.id /\ PutForeign(e.cap)
            /\ last'.op = e.op /\ last'.id = e.id /\ last'.cap = e.cap
            /\ (e.op = "get" => last'.n = e.n)

TraceSpec == TraceInit /\ [][TraceStep]_<<vars, l>>
Mark == (l > TLCGet(1) => TLCSet(1, l)) /\ TRUE
TraceAccepted == PrintT(<<"HIGHWATER", TLCGet(1)>>) /\ TLCGet(1) = Len(Trace) + 1
=============================================================================
