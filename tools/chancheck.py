"""Checks of the Channel.tla family: C01 C02 C05 C06 C11 C18."""
import json, os, random, time
from vlib import *
from chanlib import *

ASSUME = [
    "TLC 1.8 explores the bounded configurations exhaustively; larger configurations are only sampled",
    "the gate scheduler serialises the real goroutines at the hooks of build tag verif and at the mock transport; "
    "interleavings between two gates are not explored",
    "mock transport/executor stand in for TCP and the goroutine executor",
    "verdicts come only from the observable-level oracle on the real code; spec-only counterexamples are replayed first",
]


class Ctx:
    """One check run: collects counters for the evidence file."""

    def __init__(self, pid, tier, seed):
        self.pid, self.tier, self.seed = pid, tier, seed
        self.rnd = random.Random(seed * 1000003 + sum(map(ord, pid)))
        self.wd = workdir(pid)
        self.t0 = time.time()
        self.states = 0
        self.transitions = 0
        self.mc_runs = []
        self.traces_validated = 0
        self.replays = 0
        self.edges_total = 0
        self.edges_walked = 0
        self.nonconforming = []
        self.schedule_divergences = 0
        self.samples = []
        self.fails = []        # (fail dict, case) of this property
        self.other_fails = {}  # prop -> count
        self.actions = {}
        self.harness_errors = []
        self.selftests = {}
        self.driver = None
        self.notes = []

    def build(self):
        self.driver, bt = build_driver(self.wd)
        return self.driver

    def add_mc(self, res, c, what):
        self.states += res.get("distinct", 0)
        self.transitions += res.get("generated", 0)
        self.mc_runs.append({"what": what, "distinct": res.get("distinct"), "generated": res.get("generated"),
                             "depth": res.get("depth"), "wall_s": round(res["wall"], 1),
                             "violated": res.get("violated")})

    def absorb(self, results, cases):
        byid = {c["id"]: c for c in cases}
        for r in results:
            self.replays += 1
            self.schedule_divergences += r.get("diverged", 0)
            for k, v in (r.get("actions") or {}).items():
                self.actions[k] = self.actions.get(k, 0) + v
            if r.get("harness_err"):
                self.harness_errors.append((r["id"], r["harness_err"]))
            for f in r.get("fails") or []:
                if f["prop"] == self.pid:
                    self.fails.append((f, byid[r["id"]], r))
                else:
                    self.other_fails[f["prop"]] = self.other_fails.get(f["prop"], 0) + 1


def mc_and_replay_cex(cx, name, c, invariants, properties=(), spec="Spec", maxpolls=2, what="", timeout=900,
                      expect_violation=False):
    """Model-check; a spec-level counterexample is never a verdict: it is replayed on the real code."""
    res = model_check(cx.wd, name, c, invariants, properties, spec=spec, maxpolls=maxpolls, timeout=timeout)
    cx.add_mc(res, c, what or name)
    log("  TLC %s: %s distinct, violated=%s, t=%.1fs" % (what or name, res.get("distinct"), res.get("violated"), time.time() - cx.t0))
    if res["violated"]:
        sched = schedule_of_trace(res["trace"])
        log("  TLC: %s violated in %s (%d-step counterexample) -> replaying on the real code" % (res["violated"], name, len(sched)))
        cc = dict(c)
        cases = [go_case(cc, "%s-cex-%d" % (name, i), cx.rnd, schedule=sched, sizes=SMALL_SIZES) for i in range(3)]
        results = run_driver(cx.driver, "chan", cases, cx.wd, tag=name + "cex")
        before = len(cx.fails)
        cx.absorb(results, cases)
        reproduced = len(cx.fails) > before
        return res, sched, reproduced
    return res, None, False


def replay_graph(cx, name, c, max_paths=None, maxpolls=2, sizes=None, timeout=900):
    """Edge cover of the state graph of c replayed on the real code, traces validated by TLC,
    walked edges measured."""
    init, adj, sig, res = graph_of(cx.wd, name + "G", c, maxpolls=maxpolls, timeout=timeout)
    cx.add_mc(res, c, "state graph for replay: " + name)
    paths, total, planned = edge_cover(init, adj, cx.rnd, max_paths=max_paths)
    cases = []
    for i, p in enumerate(paths):
        sched = [label_move(l) for _, l, _ in p]
        cases.append(go_case(c, "%s-p%d" % (name, i), cx.rnd, schedule=sched, sizes=sizes or SMALL_SIZES))
    results = run_driver(cx.driver, "chan", cases, cx.wd, tag=name)
    cx.absorb(results, cases)
    # trace validation uses the real MaxPolls=10 unless the graph was bounded differently
    cv = dict(c)
    v = validate_traces(cx.wd, name + "T", cv, results)
    cx.traces_validated += len(v["accepted"])
    cx.states += v["states"]
    for rid, step, line in v["rejected"]:
        cx.nonconforming.append({"case": rid, "step": step})
    for rid, step, inv in v["inv_violations"]:
        cx.nonconforming.append({"case": rid, "step": step, "invariant": inv})
    walked = set()
    for r in results:
        w, ok = walk_events(init, adj, sig, r["events"])
        walked.update(w)
    cx.edges_total += total
    cx.edges_walked += len(walked)
    if results and len(cx.samples) < 3:
        r = results[0]
        cx.samples.append({"config": c, "schedule": r["sched"][:40], "final": r["final"]})
    return {"paths": len(paths), "edges": total, "planned": planned, "walked": len(walked),
            "accepted": len(v["accepted"]), "rejected": len(v["rejected"]), "t": round(time.time() - cx.t0, 1)}


def random_runs(cx, name, c, n, policies=("uniform", "pct", "window"), fault_prob=0.0, cancel_prob=0.0,
                sizes=None, traced=True, max_steps=800):
    cases = []
    for i in range(n):
        pol = policies[i % len(policies)]
        rand = {"seed": cx.rnd.randrange(1 << 40), "policy": pol, "fault_prob": fault_prob,
                "cancel_prob": cancel_prob, "depth": 3}
        cases.append(go_case(c, "%s-r%d" % (name, i), cx.rnd, rand=rand, sizes=sizes, notrace=not traced,
                             max_steps=max_steps))
    results = run_driver(cx.driver, "chan", cases, cx.wd, tag=name)
    cx.absorb(results, cases)
    if traced:
        v = validate_traces(cx.wd, name + "T", c, [r for r in results if r.get("events")])
        cx.traces_validated += len(v["accepted"])
        cx.states += v["states"]
        for rid, step, line in v["rejected"]:
            cx.nonconforming.append({"case": rid, "step": step})
        for rid, step, inv in v["inv_violations"]:
            cx.nonconforming.append({"case": rid, "step": step, "invariant": inv})
    log("  random %s: %d cases, t=%.1fs" % (name, len(cases), time.time() - cx.t0))
    if results and len(cx.samples) < 4:
        r = results[-1]
        cx.samples.append({"config": c, "policy": cases[-1]["random"]["policy"], "schedule": r["sched"][:40],
                           "final": r["final"]})
    return results


def finish(cx, level_text_extra=None, rule=None):
    """Verdict + evidence. Returns exit code."""
    pid = cx.pid
    rc = 0
    known = {}
    new = []
    for f, case, r in cx.fails:
        kf = open_finding(pid, f["key"])
        if kf:
            known.setdefault(kf["key"], (kf, f))
        else:
            new.append((f, case, r))
    for key, (kf, f) in sorted(known.items()):
        log("KNOWN-FINDING: property=%s %s [%s] e.g. %s" % (pid, kf["what"], key, f["msg"]))
    seen = set()
    for f, case, r in new:
        if f["key"] in seen:
            continue
        seen.add(f["key"])
        case = dict(case)
        case["schedule"] = [s[:2] for s in r["sched"]]
        case.pop("random", None)
        path = save_replay(pid, {"module": "chan", "case": case, "fail": f})
        log("VIOLATION property=%s replay=%s" % (pid, path))
        log("  %s: %s" % (f["key"], f["msg"]))
        rc = 1
    if cx.harness_errors and rc == 0:
        log("INCONCLUSIVE: %d driver cases failed in the harness, e.g. %s" % (len(cx.harness_errors), cx.harness_errors[0]))
        rc = 2
    if cx.nonconforming and rc == 0:
        log("NONCONFORMING: %d recorded executions are not behaviours of the specification (first: %s); "
            "the observable-level oracle passed on all of them, so this is not reported as a violation"
            % (len(cx.nonconforming), cx.nonconforming[0]))
    cov = {
        "states": max(cx.states, 1), "transitions": max(cx.transitions, 1),
        "traces_validated_against_impl": cx.traces_validated,
        "samples": cx.samples or [{"note": "no sample"}],
        "evaluations": cx.replays,
        "distinct_nontrivial": cx.edges_walked,
        "rule": rule or ("cases = TLC state-graph edge-cover schedules and seeded random schedules executed on the real "
                         "channel through the gate scheduler; distinct_nontrivial = distinct spec transitions (graph edges) "
                         "the real code was observed to take"),
        "model_checking_runs": cx.mc_runs,
        "replays_on_real_code": cx.replays,
        "graph_edges_total": cx.edges_total, "graph_edges_walked_by_real_code": cx.edges_walked,
        "nonconforming": len(cx.nonconforming), "nonconforming_detail": cx.nonconforming[:5],
        "schedule_divergences": cx.schedule_divergences,
        "real_code_actions": cx.actions,
        "oracle_failures_of_other_properties_seen": cx.other_fails,
        "selftests": cx.selftests,
        "known_findings_reproduced": sorted(known.keys()),
        "tree_model": TREE,
        "exhaustive": False,
        "notes": cx.notes,
    }
    write_evidence(pid, cx.tier, cx.seed, "model_checking", cov, time.time() - cx.t0, len(seen), ASSUME)
    cleanup(cx.wd)
    log("%s %s: exit %d  (%d TLC states, %d replays on real code, %d traces validated, %d/%d graph edges walked, %.1fs)"
        % (pid, cx.tier, rc, cx.states, cx.replays, cx.traces_validated, cx.edges_walked, cx.edges_total, time.time() - cx.t0))
    return rc


# ---------------------------------------------------------------- configurations
W = lambda *ops: [tuple(o.split(":")) if ":" in o else (o, "bg") for o in ops]


def check_C01(cx):
    cx.build()
    quick = cx.tier == "quick"
    inv = ["TypeOK", "C01_Prefix", "C01_NoDup", "C01_ErrNoBytes", "C01_RealTime"]
    # exhaustive model checking: all interleavings of the writers with the sender incarnations
    mcs = [
        ("async-q1-block", cfg({"W1": W("W1", "Wv"), "W2": W("CW1")}, qsize=1, until=True)),
        ("async-q2-nonblock", cfg({"W1": W("W1", "CWv"), "W2": W("Wv")}, qsize=2, until=False)),
        ("sync", cfg({"W1": W("W1", "CWv"), "W2": W("Wv", "CW1")}, qsize=0)),
    ]
    if not quick:
        mcs += [
            ("async-q2-block-2x2", cfg({"W1": W("W1", "Wv"), "W2": W("CW1", "CWv")}, qsize=2, until=True)),
            ("async-q3-nonblock-2x2", cfg({"W1": W("W1", "W1"), "W2": W("Wv", "CW1")}, qsize=3, until=False)),
            ("async-q1-3writers", cfg({"W1": W("W1"), "W2": W("Wv"), "W3": W("CW1")}, qsize=1, until=True)),
            ("async-q2-3writers", cfg({"W1": W("W1"), "W2": W("Wv"), "W3": W("CW1")}, qsize=2, until=False)),
            ("sync-3writers", cfg({"W1": W("W1"), "W2": W("Wv"), "W3": W("CW1", "W1")}, qsize=0)),
        ]
    for name, c in mcs:
        mc_and_replay_cex(cx, "MC" + name.replace("-", ""), c, inv, what="C01 invariants, " + name)
    # conformance: every edge of small graphs replayed on the real code
    graphs = [
        ("gq1", cfg({"W1": W("W1"), "W2": W("Wv")}, qsize=1, until=True)),
        ("gsync", cfg({"W1": W("W1"), "W2": W("CWv")}, qsize=0)),
    ]
    if not quick:
        graphs += [
            ("gq1nb", cfg({"W1": W("W1", "CW1"), "W2": W("Wv")}, qsize=1, until=False)),
            ("gq2", cfg({"W1": W("W1", "Wv"), "W2": W("CW1")}, qsize=2, until=True)),
            ("gq1x3", cfg({"W1": W("W1"), "W2": W("Wv"), "W3": W("CWv")}, qsize=1, until=True)),
        ]
    for name, c in graphs:
        st = replay_graph(cx, name, c, max_paths=None if not quick else 400)
        log("  replay %s: %s" % (name, st))
    # sampled larger configurations, all payload sizes, validated against the spec
    big = [
        ("r4q2", cfg({"W1": W("W1", "Wv", "CW1"), "W2": W("Wv", "WW"), "W3": W("CW1", "CWv"), "W4": W("W1")}, qsize=2, until=True)),
        ("r3q3nb", cfg({"W1": W("W1", "Wv", "CW1"), "W2": W("Wv", "W1", "W1"), "W3": W("CWv", "CW1")}, qsize=3, until=False)),
        ("r3sync", cfg({"W1": W("W1", "Wv"), "W2": W("Wv", "CW1"), "W3": W("CWv", "WW")}, qsize=0)),
        ("r5q8", cfg({"W%d" % i: W("W1", "Wv", "CW1") for i in range(1, 6)}, qsize=8, until=True)),
    ]
    n = 40 if quick else 400
    for name, c in big:
        random_runs(cx, name, c, n, sizes=NZ_SIZES)
        random_runs(cx, name + "z", c, n // 4, sizes=SIZES, traced=False)
    return finish(cx)


def check_C02(cx):
    cx.build()
    quick = cx.tier == "quick"
    inv = ["TypeOK", "C02_Responsible", "C02_Quiescent"]
    mcs = [
        ("q1", cfg({"W1": W("W1", "Wv"), "W2": W("CW1")}, qsize=1, until=True)),
        ("q2nb", cfg({"W1": W("W1", "W1"), "W2": W("Wv")}, qsize=2, until=False)),
    ]
    live = [("live-q1", cfg({"W1": W("W1"), "W2": W("Wv")}, qsize=1, until=True))]
    if not quick:
        mcs += [
            ("q2-2x2", cfg({"W1": W("W1", "Wv"), "W2": W("CW1", "CWv")}, qsize=2, until=True)),
            ("q1-3w", cfg({"W1": W("W1"), "W2": W("Wv"), "W3": W("CW1")}, qsize=1, until=True)),
            ("q3-3w", cfg({"W1": W("W1"), "W2": W("Wv"), "W3": W("CW1")}, qsize=3, until=False)),
        ]
        live += [("live-q2", cfg({"W1": W("W1", "Wv"), "W2": W("CW1")}, qsize=2, until=True)),
                 ("live-q1nb", cfg({"W1": W("W1", "Wv"), "W2": W("CW1")}, qsize=1, until=False))]
    for name, c in mcs:
        mc_and_replay_cex(cx, "MC" + name.replace("-", ""), c, inv, what="C02 safety core, " + name)
    for name, c in live:
        mc_and_replay_cex(cx, "MC" + name.replace("-", ""), c, ["TypeOK"], properties=["C02_Live"], spec="FairSpec",
                          what="C02 liveness under weak fairness, " + name)
    graphs = [("gq1", cfg({"W1": W("W1"), "W2": W("Wv")}, qsize=1, until=True)),
              ("gq2nb", cfg({"W1": W("W1"), "W2": W("CW1")}, qsize=2, until=False))]
    if not quick:
        graphs += [("gq1b", cfg({"W1": W("W1", "CW1"), "W2": W("Wv")}, qsize=1, until=True)),
                   ("gq2", cfg({"W1": W("W1", "Wv"), "W2": W("CW1")}, qsize=2, until=True))]
    for name, c in graphs:
        st = replay_graph(cx, name, c, max_paths=None if not quick else 400)
        log("  replay %s: %s" % (name, st))
    big = [
        ("r4q1", cfg({"W1": W("W1", "Wv"), "W2": W("Wv", "WW"), "W3": W("CW1", "CWv"), "W4": W("W1")}, qsize=1, until=True)),
        ("r4q2", cfg({"W1": W("W1", "Wv", "CW1"), "W2": W("Wv", "WW"), "W3": W("CW1", "CWv"), "W4": W("W1")}, qsize=2, until=True)),
        ("r6q4", cfg({"W%d" % i: W("W1", "Wv") for i in range(1, 7)}, qsize=4, until=True)),
    ]
    n = 40 if quick else 400
    for name, c in big:
        random_runs(cx, name, c, n, policies=("window", "pct", "uniform"), sizes=NZ_SIZES)
    return finish(cx)


def check_C06(cx):
    cx.build()
    quick = cx.tier == "quick"
    inv = ["TypeOK", "C06_Graceful", "C06_NoMidBatch", "C05_Once"]
    mcs = [
        ("q1-block", cfg({"W1": W("W1"), "W2": W("Wv")}, {"C1": "e1"}, qsize=1, until=True)),
        ("q2-block", cfg({"W1": W("W1", "CW1"), "W2": W("Wv")}, {"C1": "e1"}, qsize=2, until=True)),
        ("q2-bounded", cfg({"W1": W("W1"), "W2": W("Wv")}, {"C1": "e1"}, qsize=2, until=False)),
    ]
    live = [("live-q1", cfg({"W1": W("W1"), "W2": W("Wv")}, {"C1": "e1"}, qsize=1, until=True))]
    if not quick:
        mcs += [
            ("q2-2x2", cfg({"W1": W("W1", "Wv"), "W2": W("CW1", "CWv")}, {"C1": "e1"}, qsize=2, until=True)),
            ("q1-2closers", cfg({"W1": W("W1"), "W2": W("Wv")}, {"C1": "e1", "C2": "nil"}, qsize=1, until=True)),
            ("q3-bounded", cfg({"W1": W("W1", "W1"), "W2": W("Wv")}, {"C1": "e1"}, qsize=3, until=False)),
            ("q2-faults", cfg({"W1": W("W1", "CW1"), "W2": W("Wv")}, {"C1": "e1"}, qsize=2, until=True, maxfaults=1)),
        ]
        live += [("live-q2-faults", cfg({"W1": W("W1"), "W2": W("Wv")}, {"C1": "e1"}, qsize=2, until=True, maxfaults=1)),
                 ("live-bounded", cfg({"W1": W("W1"), "W2": W("Wv")}, {"C1": "e1"}, qsize=1, until=False))]
    for name, c in mcs:
        mc_and_replay_cex(cx, "MC" + name.replace("-", ""), c, inv, what="C06 invariants, " + name)
    for name, c in live:
        mc_and_replay_cex(cx, "MC" + name.replace("-", ""), c, ["TypeOK"], properties=["C06_CloseTerminates"],
                          spec="FairSpec", what="Close terminates under weak fairness, " + name)
    # regression self-test: the specification of the unrepaired Close must still yield the
    # release-window counterexample, and that schedule is replayed on the current tree
    if TREE["FixDrain"]:
        c0 = cfg({"W1": W("W1"), "W2": W("Wv")}, {"C1": "e1"}, qsize=1, until=True, fixdrain=False)
        res = model_check(cx.wd, "MCunfixed", c0, ["C06_Graceful"])
        cx.add_mc(res, c0, "self-test: unrepaired Close (FixDrain=FALSE) must violate C06_Graceful")
        cx.selftests["unfixed_spec_violates_C06_Graceful"] = bool(res["violated"])
        if not res["violated"]:
            raise Inconclusive("self-test failed: the unrepaired specification no longer violates C06_Graceful (vacuous invariant?)")
        sched = schedule_of_trace(res["trace"])
        c1 = cfg({"W1": W("W1"), "W2": W("Wv")}, {"C1": "e1"}, qsize=1, until=True)
        cases = [go_case(c1, "regress-%d" % i, cx.rnd, schedule=sched, sizes=SMALL_SIZES) for i in range(3)]
        results = run_driver(cx.driver, "chan", cases, cx.wd, tag="regress")
        cx.absorb(results, cases)
        cx.selftests["old_counterexample_schedule"] = sched
    graphs = [("gq1", cfg({"W1": W("W1")}, {"C1": "e1"}, qsize=1, until=True))]
    if not quick:
        graphs += [("gq1w2", cfg({"W1": W("W1"), "W2": W("Wv")}, {"C1": "e1"}, qsize=1, until=True)),
                   ("gq2nb", cfg({"W1": W("W1"), "W2": W("CW1")}, {"C1": "nil"}, qsize=2, until=False))]
    for name, c in graphs:
        st = replay_graph(cx, name, c, max_paths=300 if quick else None)
        log("  replay %s: %s" % (name, st))
    big = [
        ("r3q2c1", cfg({"W1": W("W1", "Wv"), "W2": W("Wv", "WW"), "W3": W("CW1")}, {"C1": "e1"}, qsize=2, until=True)),
        ("r4q1c2", cfg({"W1": W("W1", "Wv"), "W2": W("Wv"), "W3": W("CW1"), "W4": W("W1")}, {"C1": "e1", "C2": "e2"}, qsize=1, until=True)),
        ("r3q3nbc1", cfg({"W1": W("W1", "Wv"), "W2": W("Wv", "W1"), "W3": W("CW1")}, {"C1": "nil"}, qsize=3, until=False)),
    ]
    n = 30 if quick else 300
    for name, c in big:
        random_runs(cx, name, c, n, policies=("window", "pct", "uniform"), sizes=NZ_SIZES)
    return finish(cx)


KINDS = ["M", "W1", "Wv", "CW1", "CWv", "WW"]


def check_C11(cx):
    cx.build()
    quick = cx.tier == "quick"
    inv = ["TypeOK", "C11_FailAfterClose", "C01_ErrNoBytes", "C05_Once"]
    mcs = [
        ("async-nil", cfg({"W1": W("W1", "CW1"), "W2": W("Wv")}, {"C1": "nil"}, qsize=1, until=True)),
        ("async-e1-m", cfg({"W1": W("M", "W1", "CW1")}, {"C1": "e1"}, qsize=1, until=True)),
        ("sync-nil", cfg({"W1": W("M", "W1", "CW1"), "W2": W("Wv", "CWv")}, {"C1": "nil"}, qsize=0)),
        ("sync-e1", cfg({"W1": W("M", "W1", "CW1"), "W2": W("Wv", "CWv")}, {"C1": "e1"}, qsize=0)),
        ("async-2closers", cfg({"W1": W("W1", "CW1")}, {"C1": "nil", "C2": "e2"}, qsize=1, until=True)),
    ]
    if not quick:
        mcs += [
            ("async-q2-3ops", cfg({"W1": W("M", "W1"), "W2": W("CWv")}, {"C1": "nil"}, qsize=2, until=True)),
            ("async-nb", cfg({"W1": W("W1", "CW1"), "W2": W("M")}, {"C1": "nil"}, qsize=1, until=False)),
            ("async-deadctx", cfg({"W1": W("CW1:dead", "CWv:dead"), "W2": W("W1")}, {"C1": "nil"}, qsize=1, until=True)),
            ("sync-2closers", cfg({"W1": W("M", "W1"), "W2": W("CW1", "Wv")}, {"C1": "nil", "C2": "e2"}, qsize=0)),
            ("async-faults", cfg({"W1": W("W1", "CW1")}, {"C1": "nil"}, qsize=1, until=True, maxfaults=1)),
            ("async-wv-e1", cfg({"W1": W("Wv", "CWv"), "W2": W("M")}, {"C1": "e1"}, qsize=1, until=True)),
        ]
    for name, c in mcs:
        mc_and_replay_cex(cx, "MC" + name.replace("-", ""), c, inv, what="C11 invariants, " + name)
    if TREE["FixClosed"]:
        c0 = cfg({"W1": W("W1", "CW1")}, {"C1": "nil"}, qsize=1, until=True, fixclosed=False)
        res = model_check(cx.wd, "MCunfixed", c0, ["C11_FailAfterClose"])
        cx.add_mc(res, c0, "self-test: entry points without the closed test (FixClosed=FALSE) must violate C11_FailAfterClose")
        cx.selftests["unfixed_spec_violates_C11"] = bool(res["violated"])
        if not res["violated"]:
            raise Inconclusive("self-test failed: the unrepaired specification no longer violates C11_FailAfterClose")
        sched = schedule_of_trace(res["trace"])
        c1 = cfg({"W1": W("W1", "CW1")}, {"C1": "nil"}, qsize=1, until=True)
        cases = [go_case(c1, "regress-%d" % i, cx.rnd, schedule=sched, sizes=SMALL_SIZES) for i in range(8)]
        cx.absorb(run_driver(cx.driver, "chan", cases, cx.wd, tag="regress"), cases)
    # every entry point after a completed Close, both select outcomes sampled many times
    for arg in ("nil", "e1"):
        for q, until in ((2, True), (1, False), (0, True)):
            c = cfg({"W1": W(*KINDS)}, {"C1": arg}, qsize=q, until=until)
            sched = [["step", "C1"]] * 12
            cases = [go_case(c, "after-%s-q%d-%d" % (arg, q, i), cx.rnd, schedule=sched, sizes=SMALL_SIZES) for i in range(16 if quick else 64)]
            results = run_driver(cx.driver, "chan", cases, cx.wd, tag="after")
            cx.absorb(results, cases)
            v = validate_traces(cx.wd, "afterT", c, results)
            cx.traces_validated += len(v["accepted"])
            cx.states += v["states"]
            cx.nonconforming += [{"case": r, "step": st} for r, st, _ in v["rejected"]]
    graphs = [("gq1", cfg({"W1": W("W1", "CW1")}, {"C1": "nil"}, qsize=1, until=True))]
    if not quick:
        graphs += [("gsync", cfg({"W1": W("M", "W1"), "W2": W("CWv")}, {"C1": "nil"}, qsize=0)),
                   ("gq1m", cfg({"W1": W("M", "Wv")}, {"C1": "e1"}, qsize=1, until=False))]
    for name, c in graphs:
        st = replay_graph(cx, name, c, max_paths=300 if quick else None)
        log("  replay %s: %s" % (name, st))
    big = [
        ("r3q2", cfg({"W1": W("M", "W1", "CW1"), "W2": W("Wv", "CWv", "WW"), "W3": W("CW1", "M")}, {"C1": "nil", "C2": "e2"}, qsize=2, until=True)),
        ("r3sync", cfg({"W1": W("M", "W1", "CW1"), "W2": W("Wv", "CWv", "WW"), "W3": W("CW1", "M")}, {"C1": "nil"}, qsize=0)),
    ]
    n = 30 if quick else 300
    for name, c in big:
        random_runs(cx, name, c, n, sizes=NZ_SIZES)
    return finish(cx)


def check_C18(cx):
    cx.build()
    quick = cx.tier == "quick"
    inv = ["TypeOK", "C18_NeverBlocks", "C18_Bound", "C18_CancelNoBytes", "C01_ErrNoBytes"]
    props = ["C18_NoSpaceOnlyWhenFull"]
    mcs = [
        ("nb-q1", cfg({"W1": W("W1", "CW1"), "W2": W("Wv"), "W3": W("CWv:dead")}, qsize=1, until=False)),
        ("b-q1-mortal", cfg({"W1": W("CW1:mortal"), "W2": W("W1"), "W3": W("CWv:mortal")}, qsize=1, until=True)),
        ("b-q1-close", cfg({"W1": W("W1"), "W2": W("Wv"), "W3": W("CW1")}, {"C1": "e1"}, qsize=1, until=True)),
    ]
    if not quick:
        mcs += [
            ("nb-q2", cfg({"W1": W("W1", "CW1"), "W2": W("Wv", "W1"), "W3": W("CWv:dead")}, qsize=2, until=False)),
            ("b-q2-mortal", cfg({"W1": W("CW1:mortal", "W1"), "W2": W("W1", "Wv"), "W3": W("CWv:mortal")}, qsize=2, until=True)),
            ("b-q1-close-nil", cfg({"W1": W("W1"), "W2": W("Wv"), "W3": W("CW1:mortal")}, {"C1": "nil"}, qsize=1, until=True)),
            ("nb-q3-4w", cfg({"W1": W("W1"), "W2": W("Wv"), "W3": W("CW1"), "W4": W("CWv")}, qsize=3, until=False)),
        ]
    for name, c in mcs:
        mc_and_replay_cex(cx, "MC" + name.replace("-", ""), c, inv, properties=props, what="C18 invariants, " + name)
    # liveness: a writer blocked on a full queue eventually returns (space, its context, or close)
    live = cfg({"W1": W("W1"), "W2": W("Wv"), "W3": W("CW1")}, qsize=1, until=True)
    write_live = ["C18_WaitEnds"]
    mc_and_replay_cex(cx, "MClive", live, ["TypeOK"], properties=write_live, spec="FairSpec", what="C18 blocked writers eventually return")
    graphs = [("gnb", cfg({"W1": W("W1"), "W2": W("CW1"), "W3": W("Wv")}, qsize=1, until=False))]
    if not quick:
        graphs += [("gb", cfg({"W1": W("W1"), "W2": W("CW1:mortal"), "W3": W("Wv")}, qsize=1, until=True)),
                   ("gbc", cfg({"W1": W("W1"), "W2": W("CW1")}, {"C1": "e1"}, qsize=1, until=True))]
    for name, c in graphs:
        st = replay_graph(cx, name, c, max_paths=300 if quick else None)
        log("  replay %s: %s" % (name, st))
    big = [
        ("r5q1nb", cfg({"W%d" % i: W("W1", "CW1", "Wv") for i in range(1, 6)}, qsize=1, until=False)),
        ("r5q2b", cfg({"W%d" % i: W("W1", "CW1:mortal", "Wv") for i in range(1, 6)}, qsize=2, until=True)),
        ("r4q1bc", cfg({"W%d" % i: W("W1", "CWv:mortal") for i in range(1, 5)}, {"C1": "e1"}, qsize=1, until=True)),
        ("r4q3nb", cfg({"W%d" % i: W("Wv", "CW1:dead", "W1") for i in range(1, 5)}, qsize=3, until=False)),
    ]
    n = 30 if quick else 300
    for name, c in big:
        random_runs(cx, name, c, n, policies=("window", "uniform", "pct"), cancel_prob=0.05, sizes=NZ_SIZES)
    return finish(cx)


def check_C05(cx):
    cx.build()
    quick = cx.tier == "quick"
    inv = ["TypeOK", "C05_Once", "C05_InactiveErr", "C05_ActiveFirst", "C05_CloseRetImpliesClosed",
           "C05_WinnerDone", "C05_ReadsSequential"]
    mcs = [
        ("full-2closers", cfg({"W1": W("W1")}, {"C1": "e1", "C2": "e2"}, qsize=1, until=True, serve="full", reads=1)),
        ("full-readfail", cfg({"W1": W("W1")}, {"C1": "e1"}, qsize=1, until=True, serve="full", reads=1, maxfaults=1)),
        ("sync-3closers", cfg({"W1": W("W1")}, {"C1": "e1", "C2": "nil", "C3": "e3"}, qsize=0, serve="full", reads=1)),
    ]
    if not quick:
        mcs += [
            ("full-3closers-async", cfg({"W1": W("W1")}, {"C1": "e1", "C2": "nil", "C3": "e3"}, qsize=1, until=True, serve="full", reads=1)),
            ("full-faults2", cfg({"W1": W("W1", "Wv")}, {"C1": "e1"}, qsize=2, until=True, serve="full", reads=2, maxfaults=2)),
            ("sync-faults", cfg({"W1": W("W1", "CW1")}, {"C1": "e1", "C2": "e2"}, qsize=0, serve="full", reads=1, maxfaults=1)),
            ("bounded-faults", cfg({"W1": W("W1"), "W2": W("Wv")}, {"C1": "e1"}, qsize=1, until=False, serve="full", reads=0, maxfaults=1)),
        ]
    for name, c in mcs:
        mc_and_replay_cex(cx, "MC" + name.replace("-", ""), c, inv, what="C05 invariants, " + name)
    lc = cfg({}, {"C1": "e1"}, qsize=1, until=True, serve="full", reads=1, maxfaults=1)
    mc_and_replay_cex(cx, "MClive", lc, ["TypeOK"], properties=["C05_ReadLoopEnds"], spec="FairSpec",
                      what="read loop terminates once reads fail / channel closes")
    graphs = [("gfull", cfg({}, {"C1": "e1", "C2": "nil"}, qsize=1, until=True, serve="full", reads=1, maxfaults=1))]
    if not quick:
        graphs += [("gfullw", cfg({"W1": W("W1")}, {"C1": "e1"}, qsize=1, until=True, serve="full", reads=1, maxfaults=1)),
                   ("gsync", cfg({"W1": W("W1")}, {"C1": "e1", "C2": "e2"}, qsize=0, serve="full", reads=1, maxfaults=1))]
    for name, c in graphs:
        st = replay_graph(cx, name, c, max_paths=300 if quick else None)
        log("  replay %s: %s" % (name, st))
    big = [
        ("r3c3", cfg({"W1": W("W1", "Wv"), "W2": W("CW1"), "W3": W("WW")}, {"C1": "e1", "C2": "nil", "C3": "e3"}, qsize=2, until=True, serve="full", reads=2, maxfaults=2)),
        ("r2c2sync", cfg({"W1": W("W1", "Wv"), "W2": W("CW1")}, {"C1": "e1", "C2": "e2"}, qsize=0, serve="full", reads=2, maxfaults=2)),
        ("r2c2nb", cfg({"W1": W("W1", "Wv"), "W2": W("CW1")}, {"C1": "e1", "C2": "e2"}, qsize=1, until=False, serve="full", reads=1, maxfaults=1)),
    ]
    n = 30 if quick else 300
    for name, c in big:
        random_runs(cx, name, c, n, fault_prob=0.15, sizes=NZ_SIZES)
    return finish(cx)


CHECKS = {"C01": check_C01, "C02": check_C02, "C05": check_C05, "C06": check_C06, "C11": check_C11, "C18": check_C18}
