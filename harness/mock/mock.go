// Package mock holds the gated, recording stand-ins for the transport, the
// executor and the acceptor/factory that the real go-netty code runs against.
package mock

import (
	"errors"
	"fmt"
	"io"
	"net"
	"sync"
	"time"

	"verifharness/sched"
)

// Gater is what the mocks need from the scheduler (nil = ungated).
type Gater interface {
	Gate(obj interface{}, point string)
	Current() string
}

// NetErr is a non-timeout net.Error (a broken connection).
type NetErr struct{ Msg string }

func (e *NetErr) Error() string   { return e.Msg }
func (e *NetErr) Timeout() bool   { return false }
func (e *NetErr) Temporary() bool { return false }

// TimeoutErr is a timeout net.Error.
type TimeoutErr struct{ Msg string }

func (e *TimeoutErr) Error() string   { return e.Msg }
func (e *TimeoutErr) Timeout() bool   { return true }
func (e *TimeoutErr) Temporary() bool { return true }

// ErrClosedTransport is returned by the mock after Close.
var ErrClosedTransport = errors.New("mock: use of closed transport")

// ErrInjected is the injected transport fault (plain error, not a net.Error).
var ErrInjected = errors.New("mock: injected transport fault")

// Op is one call on the transport, in global order.
type Op struct {
	Kind  string // write, writev, flush, close, read
	Proc  string
	Bytes int
	Err   string
	Seq   int
}

// ReadItem is one scripted result of Transport.Read.
type ReadItem struct {
	Data []byte
	Err  error
}

type addr string

func (a addr) Network() string { return "mock" }
func (a addr) String() string  { return string(a) }

// Transport is a recording transport. Every call announces a gate first.
type Transport struct {
	G Gater

	mu               sync.Mutex
	Stream           []byte // every byte handed to the transport, in order
	Records          [][]byte
	FlushedTo        int // len(Stream) at the last successful Flush
	Closes           int
	closed           bool
	closedCh         chan struct{}
	Ops              []Op
	seq              int
	AfterClos        int // bytes written after Close (must stay 0)
	StreamAtClose    int // len(Stream) when Close was first called (-1 = not closed)
	UnflushedAtClose int // bytes written but not flushed at that moment

	reads     []ReadItem
	readMore  chan struct{}
	EOFAlways bool // after the script: return io.EOF forever instead of blocking
	ReadCalls int

	// one-shot fault requests set by the scheduler before releasing the process
	FailNext error

	WriteDeadlines int

	// Sink, when set, receives every successful Write/Writev/Flush as well (the real buffered
	// transport wrapper over a recording connection); SinkErr is the first broken expectation:
	// the connection must hold a prefix of Stream at all times and all of it after a Flush.
	Sink     Sink
	SinkConn *Conn
	SinkErr  string
}

// Sink is the write side of a transport.
type Sink interface {
	Write(p []byte) (int, error)
	Writev(buffs net.Buffers) (int64, error)
	Flush() error
}

// Conn is a recording net.Conn (writes only; reads block forever).
type Conn struct {
	mu     sync.Mutex
	Stream []byte
	Writes int
}

func (c *Conn) Write(p []byte) (int, error) {
	c.mu.Lock()
	c.Stream = append(c.Stream, p...)
	c.Writes++
	c.mu.Unlock()
	return len(p), nil
}
func (c *Conn) Read(p []byte) (int, error)       { select {} }
func (c *Conn) Close() error                     { return nil }
func (c *Conn) LocalAddr() net.Addr              { return addr("conn-local") }
func (c *Conn) RemoteAddr() net.Addr             { return addr("conn-remote") }
func (c *Conn) SetDeadline(time.Time) error      { return nil }
func (c *Conn) SetReadDeadline(time.Time) error  { return nil }
func (c *Conn) SetWriteDeadline(time.Time) error { return nil }

// sinkCheck runs under t.mu after an operation was forwarded to the sink.
func (t *Transport) sinkCheck(op string, err error, flushed bool) {
	if t.SinkErr != "" {
		return
	}
	if err != nil {
		t.SinkErr = fmt.Sprintf("%s through the buffered wrapper failed: %v", op, err)
		return
	}
	t.SinkConn.mu.Lock()
	got := append([]byte(nil), t.SinkConn.Stream...)
	t.SinkConn.mu.Unlock()
	if len(got) > len(t.Stream) || string(got) != string(t.Stream[:len(got)]) {
		off := 0
		for off < len(got) && off < len(t.Stream) && got[off] == t.Stream[off] {
			off++
		}
		t.SinkErr = fmt.Sprintf("after %s the connection holds bytes that are not a prefix of the written stream (first difference at offset %d of %d)", op, off, len(t.Stream))
		return
	}
	if flushed && len(got) != len(t.Stream) {
		t.SinkErr = fmt.Sprintf("after Flush the connection holds %d of %d written bytes", len(got), len(t.Stream))
	}
}

// NewTransport creates a transport gated by g (g may be nil).
func NewTransport(g Gater) *Transport {
	return &Transport{G: g, closedCh: make(chan struct{}), readMore: make(chan struct{}, 1), StreamAtClose: -1}
}

func (t *Transport) gate(point string) string {
	if t.G == nil {
		return ""
	}
	t.G.Gate(t, point)
	return t.G.Current()
}

func (t *Transport) takeFault() error {
	err := t.FailNext
	t.FailNext = nil
	return err
}

func (t *Transport) op(kind, proc string, n int, err error) {
	o := Op{Kind: kind, Proc: proc, Bytes: n, Seq: t.seq}
	t.seq++
	if err != nil {
		o.Err = err.Error()
	}
	t.Ops = append(t.Ops, o)
}

// Write records p (copied) as one record.
func (t *Transport) Write(p []byte) (int, error) {
	proc := t.gate("t.write")
	t.mu.Lock()
	defer t.mu.Unlock()
	return t.writeLocked("write", proc, p)
}

func (t *Transport) writeLocked(kind, proc string, p []byte) (int, error) {
	if err := t.takeFault(); err != nil {
		t.op(kind, proc, 0, err)
		return 0, err
	}
	if t.closed {
		t.op(kind, proc, 0, ErrClosedTransport)
		return 0, &NetErr{ErrClosedTransport.Error()}
	}
	cp := append([]byte(nil), p...)
	t.Stream = append(t.Stream, cp...)
	t.Records = append(t.Records, cp)
	t.op(kind, proc, len(p), nil)
	if t.Sink != nil {
		_, err := t.Sink.Write(p)
		t.sinkCheck("Write", err, false)
	}
	return len(p), nil
}

type recorder struct {
	t    *Transport
	proc string
}

func (r recorder) Write(p []byte) (int, error) {
	cp := append([]byte(nil), p...)
	r.t.Stream = append(r.t.Stream, cp...)
	r.t.Records = append(r.t.Records, cp)
	return len(p), nil
}

// Writev hands buffs to the recorder through net.Buffers.WriteTo, which consumes
// the slice it is given exactly like the production transports do.
func (t *Transport) Writev(buffs net.Buffers) (int64, error) {
	proc := t.gate("t.writev")
	t.mu.Lock()
	defer t.mu.Unlock()
	if err := t.takeFault(); err != nil {
		t.op("writev", proc, 0, err)
		return 0, err
	}
	if t.closed {
		t.op("writev", proc, 0, ErrClosedTransport)
		return 0, &NetErr{ErrClosedTransport.Error()}
	}
	var fwd net.Buffers
	if t.Sink != nil {
		fwd = append(net.Buffers(nil), buffs...)
	}
	n, err := buffs.WriteTo(recorder{t, proc})
	t.op("writev", proc, int(n), err)
	if t.Sink != nil {
		_, serr := t.Sink.Writev(fwd)
		t.sinkCheck("Writev", serr, false)
	}
	return n, err
}

// Flush marks everything written so far as flushed.
func (t *Transport) Flush() error {
	proc := t.gate("t.flush")
	t.mu.Lock()
	defer t.mu.Unlock()
	if err := t.takeFault(); err != nil {
		t.op("flush", proc, 0, err)
		return err
	}
	if t.closed && t.FlushedTo < len(t.Stream) {
		t.op("flush", proc, 0, ErrClosedTransport)
		return &NetErr{ErrClosedTransport.Error()}
	}
	t.FlushedTo = len(t.Stream)
	t.op("flush", proc, 0, nil)
	if t.Sink != nil {
		t.sinkCheck("Flush", t.Sink.Flush(), true)
	}
	return nil
}

// Close closes the transport; blocked and later reads fail.
func (t *Transport) Close() error {
	proc := t.gate("t.close")
	t.mu.Lock()
	defer t.mu.Unlock()
	t.Closes++
	t.op("close", proc, 0, nil)
	if !t.closed {
		t.StreamAtClose = len(t.Stream)
		t.UnflushedAtClose = len(t.Stream) - t.FlushedTo
		t.closed = true
		close(t.closedCh)
	}
	return nil
}

// Feed appends scripted read results.
func (t *Transport) Feed(items ...ReadItem) {
	t.mu.Lock()
	t.reads = append(t.reads, items...)
	t.mu.Unlock()
	select {
	case t.readMore <- struct{}{}:
	default:
	}
}

// Read returns the next scripted item, or blocks until Close.
func (t *Transport) Read(p []byte) (int, error) {
	proc := t.gate("t.read")
	for {
		t.mu.Lock()
		t.ReadCalls++
		if err := t.takeFault(); err != nil {
			t.op("read", proc, 0, err)
			t.mu.Unlock()
			return 0, err
		}
		if t.closed {
			t.op("read", proc, 0, ErrClosedTransport)
			t.mu.Unlock()
			return 0, &NetErr{ErrClosedTransport.Error()}
		}
		if len(t.reads) > 0 {
			it := t.reads[0]
			if it.Err != nil && len(it.Data) == 0 {
				t.reads = t.reads[1:]
				t.op("read", proc, 0, it.Err)
				t.mu.Unlock()
				return 0, it.Err
			}
			n := copy(p, it.Data)
			if n < len(it.Data) {
				t.reads[0].Data = it.Data[n:]
				t.op("read", proc, n, nil)
				t.mu.Unlock()
				return n, nil
			}
			t.reads = t.reads[1:]
			t.op("read", proc, n, it.Err)
			t.mu.Unlock()
			return n, it.Err
		}
		if t.EOFAlways {
			t.op("read", proc, 0, io.EOF)
			t.mu.Unlock()
			return 0, io.EOF
		}
		t.mu.Unlock()
		select {
		case <-t.closedCh:
		case <-t.readMore:
		}
	}
}

// SinkError returns the first broken expectation about the sink ("" = none).
func (t *Transport) SinkError() string {
	t.mu.Lock()
	defer t.mu.Unlock()
	return t.SinkErr
}

// IsClosed reports whether Close was called.
func (t *Transport) IsClosed() bool {
	t.mu.Lock()
	defer t.mu.Unlock()
	return t.closed
}

// Snapshot returns copies of the observable counters.
func (t *Transport) Snapshot() (stream []byte, flushedTo, closes, records int) {
	t.mu.Lock()
	defer t.mu.Unlock()
	return append([]byte(nil), t.Stream...), t.FlushedTo, t.Closes, len(t.Records)
}

// Lens returns the cheap projection: bytes written, bytes flushed, closes.
func (t *Transport) Lens() (int, int, int) {
	t.mu.Lock()
	defer t.mu.Unlock()
	return len(t.Stream), t.FlushedTo, t.Closes
}

func (t *Transport) LocalAddr() net.Addr                { return addr("mock-local") }
func (t *Transport) RemoteAddr() net.Addr               { return addr("mock-remote") }
func (t *Transport) SetDeadline(time.Time) error        { return nil }
func (t *Transport) SetReadDeadline(time.Time) error    { return nil }
func (t *Transport) SetWriteDeadline(d time.Time) error { t.WriteDeadlines++; return nil }
func (t *Transport) RawTransport() interface{}          { return t }

// Spawner starts a named, gated goroutine (sched.Sched.Go).
type Spawner interface {
	Go(name string, fn func())
	Gate(obj interface{}, point string)
	Current() string
}

// Executor turns every Exec into a named gated process whose first gate is
// "x.start" (the executor's start-up delay).
type Executor struct {
	S    Spawner
	mu   sync.Mutex
	n    int
	Name func(caller string, n int) string
}

// NewExecutor names processes started by "V" (serveChannel) "R" and all others
// "S1", "S2", ...
func NewExecutor(s Spawner) *Executor {
	e := &Executor{S: s}
	return e
}

func (e *Executor) Exec(action func()) {
	caller := e.S.Current()
	e.mu.Lock()
	var name string
	if e.Name != nil {
		name = e.Name(caller, e.n)
		e.n++
	} else if caller == "V" {
		name = "R"
	} else {
		e.n++
		name = fmt.Sprintf("S%d", e.n)
	}
	e.mu.Unlock()
	e.S.Go(name, func() {
		e.S.Gate(e, "x.start")
		action()
	})
}

var _ = sched.Gid
