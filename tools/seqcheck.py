"""Checks of the sequential specification modules: Pool (C19), ..."""
import json, os, random, re, time
from vlib import *
from core import *

TREE = json.load(open(os.path.join(SPEC, "tree_model.json")))


def generic_graph(cx, name, module, consts, timeout=900, workers=4):
    cfg_lines = ["SPECIFICATION Spec", "CHECK_DEADLOCK FALSE"]
    write_mc(cx.wd, name, module, consts, cfg_lines)
    dot = os.path.join(cx.wd, name + ".dot")
    res = tlc_must(run_tlc(cx.wd, name, args=["-dump", "dot,actionlabels", dot], timeout=timeout, workers=workers))
    init, adj, _ = parse_dot(dot, None)
    os.remove(dot)
    if init is None:
        raise Inconclusive("no initial state in dot dump of %s" % name)
    cx.add_mc(res, consts, "state graph for replay: " + name)
    return init, adj


def generic_mc(cx, name, module, consts, invariants, properties=(), spec="Spec", timeout=900, what=""):
    cfg_lines = ["SPECIFICATION %s" % spec]
    if invariants:
        cfg_lines.append("INVARIANTS " + " ".join(invariants))
    if properties:
        cfg_lines.append("PROPERTIES " + " ".join(properties))
    cfg_lines.append("CHECK_DEADLOCK FALSE")
    write_mc(cx.wd, name, module, consts, cfg_lines)
    res = tlc_must(run_tlc(cx.wd, name, timeout=timeout))
    cx.add_mc(res, consts, what or name)
    log("  TLC %s: %s distinct, violated=%s, t=%.1fs" % (what or name, res.get("distinct"), res.get("violated"), time.time() - cx.t0))
    return res


def validate(cx, name, trace_module, consts, results, invariants, reset):
    v = validate_traces_generic(cx.wd, name, trace_module, consts, [r for r in results if r.get("events")], invariants, reset=reset)
    cx.traces_validated += len(v["accepted"])
    cx.states += v["states"]
    for rid, step, line in v["rejected"]:
        cx.nonconforming.append({"case": rid, "step": step})
    for rid, step, inv in v["inv_violations"]:
        cx.nonconforming.append({"case": rid, "step": step, "invariant": inv})
    return v


# ---------------------------------------------------------------- Pool / C19
def pool_consts(mx, sizes, maxops, maxbufs, fixput=None):
    return {"Max": mx, "Sizes": set(sizes), "MaxOps": maxops, "MaxBufs": maxbufs,
            "FixPut": TREE["FixPut"] if fixput is None else fixput}


_pool_lab = re.compile(r"(\w+)\((.*)\)")


def pool_op(label):
    m = _pool_lab.match(label)
    name, args = m.group(1), [int(x) for x in m.group(2).split(",") if x.strip()]
    if name == "GetHit":
        return {"op": "get", "n": args[0]}
    if name == "GetMiss":
        return {"op": "get", "n": args[0]}
    if name == "Put":
        return {"op": "put", "id": args[0]}
    if name == "PutForeign":
        return {"op": "putf", "cap": args[0]}
    raise Inconclusive("unknown Pool label " + label)


DEFAULT_SIZES = [0, 1, 1023, 1024, 1025, 1500, 2047, 2048, 2049, 3000, 4096, 5000, 32768, 40000, 65535, 65536, 65537, 131072]


def check_C19(cx):
    cx.module = "pool"
    cx.build()
    quick = cx.tier == "quick"
    inv = ["C19_Cap", "C19_ShardCap", "C19_Exclusive", "PMathOK"]
    pools = [("default", 65536, [1, 1024, 1025, 1500, 2048, 2049, 3000, 65536, 65537], 4 if quick else 5, 3),
             ("max10", 10, list(range(0, 21)) + [32, 33], 3 if quick else 4, 3),
             ("max1", 1, [0, 1, 2, 3], 4, 3),
             ("max100", 100, [0, 1, 2, 3, 4, 5, 63, 64, 65, 100, 127, 128, 129, 200, 256], 3 if quick else 4, 3)]
    if not quick:
        pools += [("max3", 3, list(range(0, 10)), 5, 4), ("max64", 64, list(range(0, 130, 3)) + [64, 65, 127, 128], 4, 3),
                  ("max8", 8, list(range(0, 18)), 5, 4)]
    all_results = []
    for name, mx, sizes, maxops, maxbufs in pools:
        consts = pool_consts(mx, sizes, maxops, maxbufs)
        res = generic_mc(cx, "MC" + name, "Pool", consts, inv, what="C19 invariants, pool.New(%d), histories of %d ops over %d sizes" % (mx, maxops, len(sizes)))
        if res["violated"]:
            # replay the counterexample history on the real pools
            ops = [pool_op("%s(%s)" % (s["action"], s["args"])) for s in res["trace"] if s["action"] in ("GetHit", "GetMiss", "Put", "PutForeign")]
            cases = [{"id": "%s-cex-%s" % (name, k), "kind": k, "max": mx, "ops": ops, "max_bufs": 16, "seed": 1} for k in ("bytes", "buffer")]
            rs = run_driver(cx.driver, "pool", cases, cx.wd, tag="cex")
            cx.absorb(rs, cases)
        # edge cover of a smaller graph replayed on both real pools
        gconsts = pool_consts(mx, sizes[:6] if len(sizes) > 6 else sizes, 3, 3)
        init, adj = generic_graph(cx, "G" + name, "Pool", gconsts)
        paths, total, planned = edge_cover(init, adj, cx.rnd, max_paths=400 if quick else None)
        cases = []
        for i, p in enumerate(paths):
            ops = [pool_op(l) for _, l, _ in p]
            for kind in ("bytes", "buffer"):
                cases.append({"id": "%s-%s-p%d" % (name, kind, i), "kind": kind, "max": mx, "ops": ops, "max_bufs": 3, "seed": 1})
        rs = run_driver(cx.driver, "pool", cases, cx.wd, tag=name)
        cx.absorb(rs, cases)
        v = validate(cx, "T" + name, "TracePool", gconsts, rs, inv[:3], {"op": "reset"})
        cx.edges_total += total
        cx.edges_walked += planned if not v["rejected"] else 0
        # random histories with more operations and buffers, validated by TLC
        rc = pool_consts(mx, sizes, 40, 12)
        cases = []
        for i in range(30 if quick else 300):
            cases.append({"id": "%s-r%d" % (name, i), "kind": ("bytes", "buffer")[i % 2], "max": mx, "random": 40,
                          "sizes": sizes, "seed": cx.rnd.randrange(1 << 40), "max_bufs": 12})
        rs = run_driver(cx.driver, "pool", cases, cx.wd, tag=name + "r")
        cx.absorb(rs, cases)
        validate(cx, "TR" + name, "TracePool", rc, rs, inv[:3], {"op": "reset"})
        if len(cx.samples) < 3 and rs:
            cx.samples.append({"pool_max": mx, "history": rs[0]["events"][:12]})
        log("  pool %s: %d graph edges, %d paths, t=%.1fs" % (name, total, len(paths), time.time() - cx.t0))
    # concurrent use on real goroutines (no gates): exclusive ownership and capacity under load
    cases = []
    for i, (name, mx, sizes, _, _) in enumerate(pools):
        for kind in ("bytes", "buffer"):
            cases.append({"id": "stress-%s-%s" % (name, kind), "kind": kind, "max": mx, "sizes": [x for x in sizes if x > 0] or [1],
                          "stress": 150 if quick else 1500, "seed": cx.rnd.randrange(1 << 40), "max_bufs": 0})
    rs = run_driver(cx.driver, "pool", cases, cx.wd, tag="stress", shards=2)
    cx.absorb(rs, cases)
    cx.extra_cov["concurrent_get_put_operations"] = sum(r.get("hits", 0) for r in rs)
    # pmath: the TLA+ operators (checked by PMathOK) against the real functions, value by value
    rng = list(range(0, (1 << 17) + 3)) if not quick else list(range(0, 5000)) + list(range(60000, 70000)) + list(range(131000, 131075))
    for k in range(3, 31):
        rng += [(1 << k) - 1, 1 << k, (1 << k) + 1]
    rng = sorted(set(x for x in rng if x <= (1 << 30)))
    # far above every pool maximum (only the arithmetic is exercised, nothing is allocated): powers of two +-1 up to
    # 2^40 and seeded values in between; the reference is the Python transcription of the TLA+ operators
    for k in range(31, 41):
        rng += [(1 << k) - 1, 1 << k, (1 << k) + 1, (1 << k) + cx.rnd.randrange(2, 1 << (k - 1)), (1 << k) + (1 << (k - 1)) + cx.rnd.randrange(1 << (k - 2))]
    cases = [{"id": "pmath-%d" % mx, "kind": "bytes", "max": mx, "pmath": rng, "max_bufs": 1, "seed": 1} for mx in (65536, 10, 1, 100, 3, 64)]
    rs = run_driver(cx.driver, "pool", cases, cx.wd, tag="pmath", shards=6)
    bad = 0
    for r, c in zip(rs, cases):
        mx = c["max"]
        maxsize = ceil2(max(mx, 1))
        sh0 = max(1, min(maxsize, 64))
        step = ceil2(maxsize // sh0)
        nsh = sh0 + 1 if step * sh0 < maxsize else sh0
        if (r["shards"], r["step"]) != (nsh, step):
            cx.fails.append(({"prop": "C19", "key": "params/%d" % mx, "msg": "pool.New(%d): shards/step %s, model %s" % (mx, (r["shards"], r["step"]), (nsh, step)), "step": 0}, c, r))
        for n, ce, fl, cl, ix in r["pmath"]:
            ece, efl = ceil2(n), floor2(n)
            ecl = step if n <= step else ceil2(n)
            if (ce, fl, cl, ix) != (ece, efl, ecl, (ecl - 1) // step):
                bad += 1
                cx.fails.append(({"prop": "C19", "key": "pmath", "msg": "n=%d: code ceil/floor/class/idx=%s model=%s" % (n, (ce, fl, cl, ix), (ece, efl, ecl, (ecl - 1) // step)), "step": 0}, c, r))
                break
    cx.extra_cov["pmath_values_compared"] = len(rng) * len(cases)
    cx.replays += len(rng) * 0
    cx.assume.append("sync.Pool is modelled as a bag (any element or none); runs pin GOMAXPROCS(1) and disable GC so histories are reproducible")
    cx.assume.append("sizes >= 2^31 are outside TLC's integers: there only the value-by-value comparison of the size-class arithmetic with its reference transcription applies (up to 2^40)")
    return finish(cx, rule="cases = Get/Put histories: TLC state-graph edge covers and seeded random histories executed on the real pbytes and pbuffer "
                            "pools; distinct_nontrivial = distinct Pool.tla transitions replayed")


def ceil2(n):
    if n <= 2:
        return n
    p = 1
    while p < n:
        p <<= 1
    return p


def floor2(n):
    if n <= 2:
        return n
    p = 1
    while p * 2 <= n:
        p <<= 1
    return p


# ---------------------------------------------------------------- Pipeline / C03, C07
from tlaval import parse_call, unset

ALL_TYPES = {"A": {"A"}, "R": {"R"}, "W": {"W"}, "X": {"X"}, "I": {"I"}, "E": {"E"}, "RW": {"R", "W"},
             "ARI": {"A", "R", "I"}, "AWI": {"A", "W", "I"}, "ALL": {"A", "R", "W", "X", "I", "E"},
             "RE": {"R", "E"}, "WX": {"W", "X"}}


def pipe_consts(types, maxops, maxinst, maxperop, panics):
    return {"Types": set(types), "IfsOf": {t: set(ALL_TYPES[t]) for t in types}, "MaxOps": maxops,
            "MaxInst": maxinst, "MaxPerOp": maxperop, "WithPanics": panics}


def pipe_op(label):
    name, args = parse_call(label)
    args = unset(args)
    if name in ("AddFirst", "AddLast"):
        return {"op": name, "refs": args[0]}
    if name == "AddHandler":
        return {"op": name, "pos": args[0], "refs": args[1]}
    if name == "Query":
        return {"op": name, "x": args[0]}
    if name == "PCancel":
        return {"op": "PCancel"}
    if name == "Fire":
        return {"op": "Fire", "k": args[0], "entry": args[1], "from": args[2], "stop": args[3], "pan": args[4], "pv": args[5]}
    raise Inconclusive("unknown Pipeline label " + label)


def pipe_verdicts(cx, v, results, cases, pid):
    """For the pipeline the specification is the reference: a recorded execution TLC rejects is a violation,
    attributed to C07 when the rejected step injected a panic and to C03 otherwise."""
    byid = {r["id"]: (r, c) for r, c in zip(results, cases)}
    for rid, step, line in v["rejected"]:
        if step == 0:
            continue  # not validated (too many rejections in this batch)
        r, c = byid[rid]
        ev = r["events"][step - 1] if 0 < step <= len(r["events"]) else {}
        prop = "C07" if ev.get("pan") else "C03"
        what = "%s %s" % (ev.get("op"), {k: ev.get(k) for k in ("k", "entry", "from", "stop", "pan", "pv", "pos", "refs", "x") if ev.get(k) not in (None, [], "", 0)})
        obs = {k: ev.get(k) for k in ("order", "size", "first", "lastidx", "log", "wrote", "xlog", "closed", "escaped", "rejected")}
        f = {"prop": prop, "key": "model-mismatch/%s/%s" % (ev.get("op"), ev.get("k") or ev.get("entry") or ""),
             "msg": "step %d (%s): the real pipeline produced %s, which Pipeline.tla does not allow" % (step, what, obs), "step": step}
        cc = dict(c)
        cc["ops"] = [{k: e[k] for k in ("op", "pos", "refs", "x", "k", "entry", "from", "stop", "pan", "pv") if k in e} for e in r["events"][:step]]
        cc["random"] = 0
        if prop == pid:
            cx.fails.append((f, cc, r))
        else:
            cx.other_fails[prop] = cx.other_fails.get(prop, 0) + 1
    cx.nonconforming = [n for n in cx.nonconforming if False]


def history_programs(kind, other):
    """Every program 'three single-handler building calls interleaved with two firings of one event kind through
    the pipeline entry point' over the palette {handles-only-<kind>, handles-something-else}: what a cache or
    any other hidden per-kind state in the pipeline would need (the state graph cannot tell such histories apart)."""
    progs = []
    types = [kind, other]
    def fire(size):
        # an exception forwarded past the last handler would close the channel: exception handlers consume it
        return {"op": "Fire", "k": kind, "entry": "pl", "from": 0, "stop": list(range(1, size + 1)) if kind == "X" else [], "pan": 0, "pv": "err"}

    def builds(size):
        out = []
        for t in types:
            ref = [{"new": True, "t": t, "i": 1}]
            out.append({"op": "AddFirst", "refs": ref})
            out.append({"op": "AddLast", "refs": ref})
            for pos in range(0, size + 1):
                out.append({"op": "AddHandler", "pos": pos, "refs": ref})
        return out
    import itertools
    for slots in itertools.combinations(range(5), 2):
        def rec(i, size, acc):
            if i == 5:
                progs.append(acc)
                return
            if i in slots:
                rec(i + 1, size, acc + [fire(size)])
            else:
                for b in builds(size):
                    rec(i + 1, size + 1, acc + [b])
        if slots[0] == 0:
            continue  # a firing on the empty pipeline tells nothing
        rec(0, 0, [])
    return progs


def check_pipeline(cx, pid):
    cx.module = "pipe"
    cx.build()
    quick = cx.tier == "quick"
    panics = pid == "C07"
    inv = ["TypeOK", "QueryConsistent", "FireConsistent"]
    # exhaustive over a small palette: every operation sequence up to the bound, every position,
    # every event kind x entry point x forwarding mask (x panic injection for C07)
    small = pipe_consts((["RW", "X"] if quick else ["RW", "X", "ALL"]) if not panics else ["RW", "ALL"], 2 if quick else 3, 2, 2 if not panics else 1, panics)
    res = generic_mc(cx, "MCsmall", "Pipeline", small, inv, what="%s reference sanity, palette %s" % (pid, sorted(small["Types"])), timeout=1500)
    gsmall = pipe_consts(["RW", "X"] if not panics else ["RW", "ALL"], 2 if quick else 3, 2, 2 if not panics else 1, panics)
    init, adj = generic_graph(cx, "Gsmall", "Pipeline", gsmall, timeout=1500)
    paths, total, planned = edge_cover(init, adj, cx.rnd, max_paths=3000 if quick else 40000)
    cases = [{"id": "g%d" % i, "ops": [pipe_op(l) for _, l, _ in p], "seed": 1} for i, p in enumerate(paths)]
    rs = run_driver(cx.driver, "pipe", cases, cx.wd, tag="g")
    cx.absorb(rs, cases)
    v = validate(cx, "Tsmall", "TracePipeline", gsmall, rs, inv, {"op": "reset"})
    pipe_verdicts(cx, v, rs, cases, pid)
    cx.edges_total += total
    cx.edges_walked += planned if not v["rejected"] else 0
    log("  pipeline graph: %d edges, %d paths, %d rejected, t=%.1fs" % (total, len(paths), len(v["rejected"]), time.time() - cx.t0))
    if not panics:
        # history phase: hidden per-kind state (caches) needs "fire, change the list, fire again"
        hp = []
        for kind, other in (("R", "A"), ("A", "R"), ("W", "R"), ("E", "R"), ("I", "W"), ("X", "R")):
            hp += [(kind, other, p) for p in history_programs(kind, other)]
        if quick:
            hp = cx.rnd.sample(hp, 6000)
        for kind, other in (("R", "A"), ("A", "R"), ("W", "R"), ("E", "R"), ("I", "W"), ("X", "R")):
            sel = [p for k, o, p in hp if k == kind]
            hc = pipe_consts([kind, other], 6, 3, 1, False)
            cases = [{"id": "h%s%d" % (kind, i), "ops": p, "seed": 1} for i, p in enumerate(sel)]
            rs = run_driver(cx.driver, "pipe", cases, cx.wd, tag="h" + kind)
            cx.absorb(rs, cases)
            for chunk in range(0, len(rs), 2000):
                v = validate(cx, "Thist%s%d" % (kind, chunk), "TracePipeline", hc, rs[chunk:chunk + 2000], inv, {"op": "reset"})
                pipe_verdicts(cx, v, rs[chunk:chunk + 2000], cases[chunk:chunk + 2000], pid)
        cx.extra_cov["history_programs"] = len(hp)
        log("  history programs (3 single-handler building calls x 2 firings, per event kind): %d, t=%.1fs" % (len(hp), time.time() - cx.t0))
    # random programs over the full palette of 12 handler types, longer histories, validated by TLC
    types = sorted(ALL_TYPES)
    big = pipe_consts(types, 16, 6, 3, panics)
    n = 150 if quick else 6000
    cases = [{"id": "r%d" % i, "random": 14, "types": types, "max_inst": 6, "max_per_op": 3, "panics": panics,
              "seed": cx.rnd.randrange(1 << 40)} for i in range(n)]
    rs = run_driver(cx.driver, "pipe", cases, cx.wd, tag="r")
    cx.absorb(rs, cases)
    for chunk in range(0, len(rs), 500):
        v = validate(cx, "Tbig%d" % chunk, "TracePipeline", big, rs[chunk:chunk + 500], inv, {"op": "reset"})
        pipe_verdicts(cx, v, rs[chunk:chunk + 500], cases[chunk:chunk + 500], pid)
    if rs:
        cx.samples.append({"program": [{k: e[k] for k in ("op", "k", "entry", "from", "stop", "pan", "pv", "pos", "refs", "x", "order", "log", "xlog", "closed") if e.get(k) not in (None, "", [])} for e in rs[0]["events"][:6]]})
    cx.assume.append("Pipeline.tla is the reference for C03/C07: a recorded execution of the real pipeline that TLC rejects is reported as a violation")
    cx.assume.append("the read loop's per-invocation recover scope is entered through VerifInvokeMethod; the loop itself is covered by Channel.tla")
    return finish(cx, rule="cases = operation programs (building calls, queries, event firings with forwarding masks%s): TLC state-graph edge covers of a small "
                            "palette and seeded random programs over 12 handler types, executed on a real pipeline+channel; distinct_nontrivial = distinct "
                            "Pipeline.tla transitions replayed" % (", panic injections" if panics else ""))


def check_C03(cx):
    return check_pipeline(cx, "C03")


def check_C07(cx):
    # transport failures in the sender and the read loop: Channel.tla with fault actions
    import chancheck as cc
    from chanlib import cfg, NZ_SIZES
    cx.build()
    quick = cx.tier == "quick"
    inv = ["TypeOK", "C05_Once", "C05_InactiveErr", "C07_FaultCloses"]
    W = cc.W
    mcs = [("wfault", cfg({"W1": W("W1"), "W2": W("Wv")}, qsize=1, until=True, serve="full", reads=1, maxfaults=1)),
           ("wfault-closer", cfg({"W1": W("W1")}, {"C1": "e1"}, qsize=2, until=True, serve="full", reads=1, maxfaults=1))]
    if not quick:
        mcs += [("wfault2", cfg({"W1": W("W1", "Wv"), "W2": W("CW1")}, qsize=2, until=False, serve="full", reads=1, maxfaults=2)),
                ("sync-rfault", cfg({"W1": W("W1", "CWv")}, {"C1": "nil"}, qsize=0, serve="full", reads=2, maxfaults=2))]
    for name, c in mcs:
        cc.mc_and_replay_cex(cx, "MC" + name.replace("-", ""), c, inv, what="C07 transport faults close the channel, " + name)
    lc = cfg({"W1": W("W1")}, qsize=1, until=True, serve="full", reads=1, maxfaults=1)
    cc.mc_and_replay_cex(cx, "MClive", lc, ["TypeOK"], properties=["C07_FaultEventuallyCloses"], spec="FairSpec",
                         what="a transport fault eventually closes the channel and ends the read loop")
    sw = cfg({"W1": W("W1"), "W2": W("Wv")}, qsize=1, until=True, serve="full", reads=1, maxfaults=1, swallow=True)
    cc.mc_and_replay_cex(cx, "MCswallow", sw, inv, what="C07 sender failure closes the channel although every exception is swallowed")
    for name, c in [("rfsw", cfg({"W1": W("W1", "Wv"), "W2": W("CW1")}, qsize=2, until=True, serve="full", reads=2, maxfaults=2, swallow=True)),
                    ("rf", cfg({"W1": W("W1", "Wv"), "W2": W("CW1")}, qsize=2, until=True, serve="full", reads=2, maxfaults=1)),
                    ("rfc", cfg({"W1": W("W1", "Wv"), "W2": W("CW1")}, {"C1": "e1"}, qsize=1, until=False, serve="full", reads=1, maxfaults=2))]:
        results = cc.random_runs(cx, name, c, 40 if quick else 400, fault_prob=0.3, sizes=NZ_SIZES)
    # handler panics on several goroutines at once: each one is delivered to the exception handlers (which consume it)
    # while another goroutine is still inside the exception handler; the channel stays open and usable
    hx = cfg({"W1": W("MX", "M"), "W2": W("MX"), "W3": W("M", "MX")}, qsize=1, until=True)
    cc.mc_and_replay_cex(cx, "MChexc", hx, ["TypeOK", "C01_Prefix", "C02_Responsible"], what="C07 concurrent handler panics are consumed, the channel keeps working")
    st = cc.replay_graph(cx, "ghexc", cfg({"W1": W("MX"), "W2": W("MX", "M")}, qsize=1, until=True), max_paths=300 if quick else None)
    log("  replay ghexc: %s" % st)
    for name, c in [("hexc", hx), ("hexcsync", cfg({"W1": W("MX", "M"), "W2": W("MX"), "W3": W("MV", "MX")}, qsize=0))]:
        cc.random_runs(cx, name, c, 40 if quick else 400, sizes=NZ_SIZES)
    for f, case, r in cx.fails:
        case["_module"] = "chan"
    return check_pipeline(cx, "C07")


# ---------------------------------------------------------------- Bootstrap / C13
def boot_consts(listeners, program, maxincoming, maxchans, shutdown=True, fixlisten=None):
    return {"Listeners": set(listeners), "Program": [list(o) for o in program], "MaxIncoming": maxincoming,
            "MaxChans": maxchans, "WithShutdown": shutdown,
            "FixListen": TREE.get("FixListen", False) if fixlisten is None else fixlisten}


def boot_move(label):
    name, args = parse_call(label)
    if name == "Incoming":
        return ["incoming", str(args[0])]
    if name[0] == "M":
        return ["step", "M"]
    if name[0] == "S":
        return ["step", "SD"]
    if name[0] == "L":
        return ["step", "L%d" % args[0]]
    if name[0] == "R":
        return ["step", "R%d" % args[0]]
    raise Inconclusive("unknown Bootstrap label " + label)


def boot_case(cid, consts, schedule=None, rand=None, active_panics=False):
    c = {"id": cid, "active_panics": active_panics, "listeners": sorted(consts["Listeners"]), "program": consts["Program"],
         "max_incoming": consts["MaxIncoming"], "shutdown": consts["WithShutdown"], "max_chans": consts["MaxChans"]}
    if schedule is not None:
        c["schedule"] = schedule
    if rand is not None:
        c["random"] = rand
    return c


def check_C13(cx):
    cx.module = "boot"
    cx.build()
    quick = cx.tier == "quick"
    inv = ["TypeOK", "C13_Final"]
    L, C, X = (lambda l: ["listen", l]), ["connect"], (lambda l: ["lclose", l])
    mcs = [
        ("l1c1", boot_consts([1], [L(1), C], 1, 2)),
        ("l2", boot_consts([1, 2], [L(1), L(2)], 1, 1)),
        ("l1x", boot_consts([1], [L(1), X(1), C], 1, 2)),
    ]
    if not quick:
        mcs += [("l2c1i2", boot_consts([1, 2], [L(1), C, L(2)], 2, 3)),
                ("l1c2", boot_consts([1], [C, L(1), C], 2, 4)),
                ("l2x", boot_consts([1, 2], [L(1), L(2), X(1)], 2, 2))]
    for name, consts in mcs:
        res = generic_mc(cx, "MC" + name, "Bootstrap", consts, inv, what="C13 final state after Shutdown, program %s" % name)
        if res["violated"]:
            sched = [boot_move("%s(%s)" % (s["action"], s["args"])) if s["args"] else boot_move(s["action"]) for s in res["trace"] if s["action"] != "Init"]
            cases = [boot_case("%s-cex" % name, consts, schedule=sched)]
            rs = run_driver(cx.driver, "boot", cases, cx.wd, tag="cex")
            cx.absorb(rs, cases)
    lres = generic_mc(cx, "MClive", "Bootstrap", boot_consts([1], [L(1), C], 1, 2), ["TypeOK"], properties=["C13_Live"], spec="FairSpec",
                      what="after Shutdown everything comes to rest (liveness)")
    if TREE.get("FixListen"):
        c0 = boot_consts([1], [L(1)], 0, 1, fixlisten=False)
        res = generic_mc(cx, "MCunfixed", "Bootstrap", c0, ["C13_Final"], what="self-test: Sync without the re-check after Listen must violate C13_Final")
        cx.selftests["unfixed_spec_violates_C13_Final"] = bool(res["violated"])
        if not res["violated"]:
            raise Inconclusive("self-test failed: the unrepaired Bootstrap specification no longer violates C13_Final")
        sched = [boot_move("%s(%s)" % (s["action"], s["args"])) if s["args"] else boot_move(s["action"]) for s in res["trace"] if s["action"] != "Init"]
        cases = [boot_case("regress", boot_consts([1], [L(1)], 0, 1), schedule=sched)]
        cx.absorb(run_driver(cx.driver, "boot", cases, cx.wd, tag="regress"), cases)
    def graph_phase(name, consts):
        init, adj = generic_graph(cx, "G" + name, "Bootstrap", consts)
        if name == "l1x0":
            # every pair of consecutive transitions, not only every transition: an implementation that splits one of
            # the specification's atomic steps differently shows only when a particular step follows another directly
            init, adj = pair_graph(init, adj)
        paths, total, planned = edge_cover(init, adj, cx.rnd, max_paths=None if name == "l1x0" else (500 if quick else 40000))
        cases = [boot_case("%s-p%d" % (name, i), consts, schedule=[boot_move(l) for _, l, _ in p],
                           rand={"seed": cx.rnd.randrange(1 << 40), "policy": "uniform"}) for i, p in enumerate(paths)]
        rs = run_driver(cx.driver, "boot", cases, cx.wd, tag=name)
        cx.absorb(rs, cases)
        v = validate(cx, "T" + name, "TraceBootstrap", consts, rs, inv, {"a": "reset", "p": ""})
        cx.edges_total += total
        cx.edges_walked += planned if not v["rejected"] else 0
        log("  bootstrap %s: %d edges, %d paths, %d rejected, t=%.1fs" % (name, total, len(paths), len(v["rejected"]), time.time() - cx.t0))
    for name, consts in (mcs[:2] if quick else mcs[:4]):
        graph_phase(name, consts)
    big = [("r2", boot_consts([1, 2], [L(1), C, L(2), C], 3, 5)), ("r2x", boot_consts([1, 2], [L(1), L(2), X(2), C], 2, 3)),
           ("r3", boot_consts([1, 2, 3], [L(1), L(2), C, L(3)], 3, 4))]
    for name, consts in big:
        # every second case: a user handler panics in HandleActive and the application's exception handler keeps the
        # connection - the channel must still be known to the holder and closed by Shutdown
        cases = [boot_case("%s-r%d" % (name, i), consts, rand={"seed": cx.rnd.randrange(1 << 40), "policy": "uniform"}, active_panics=(i % 2 == 1)) for i in range(90 if quick else 600)]
        rs = run_driver(cx.driver, "boot", cases, cx.wd, tag=name)
        cx.absorb(rs, cases)
        validate(cx, "T" + name, "TraceBootstrap", consts, rs, inv, {"a": "reset", "p": ""})
        if rs and len(cx.samples) < 3:
            cx.samples.append({"program": consts["Program"], "schedule": rs[0]["sched"][:30], "final": rs[0]["final"]})
    # "l1x0": Listener.Close racing the listener's own start-up, small enough for the quick tier's 500 paths to walk every
    # edge of its graph (the larger graphs are only sampled there; the thorough tier walks them completely)
    x0 = ("l1x0", boot_consts([1], [L(1), X(1)], 0, 1))
    res = generic_mc(cx, "MCl1x0", "Bootstrap", x0[1], inv, what="C13 final state after Shutdown, program l1x0")
    for name, consts in ([x0] if quick else mcs[5:6] + [x0]):
        graph_phase(name, consts)
    # the shipped tcp factory / acceptor (transport/tcp) under the same oracle: free-running runs over loopback sockets
    # (listeners, Bootstrap.Connect clients, plain TCP peers, Shutdown early or late); not gated, not validated by TLC
    n = 120 if quick else 3000
    tcases = [{"id": "tcp%d" % i, "kind": "boot", "listeners": cx.rnd.choice([1, 2]), "clients": cx.rnd.randrange(0, 5), "raw_peers": cx.rnd.randrange(0, 4),
               "early_shut": cx.rnd.random() < 0.5, "late_listen": cx.rnd.random() < 0.3, "seed": cx.rnd.randrange(1, 1 << 30)} for i in range(n)]
    for c in tcases:
        c["_module"] = "tcp"
    rs = run_driver(cx.driver, "tcp", tcases, cx.wd, tag="tcp")
    cx.absorb(rs, tcases)
    cx.extra_cov["real_tcp_runs"] = len(rs)
    cx.extra_cov["real_tcp_runs_skipped_port_taken"] = sum(r.get("diverged", 0) for r in rs)
    cx.assume.append("channels are created with the bootstrap context (default); channel internals are abstracted (Channel.tla is their model)")
    return finish(cx, rule="cases = Listen/Async/Connect/Listener.Close programs with a concurrent Shutdown: TLC state-graph edge covers and seeded random "
                            "schedules executed on the real bootstrap with a gated mock factory/acceptor/executor; distinct_nontrivial = distinct Bootstrap.tla transitions replayed")


# ---------------------------------------------------------------- Frame / C04, C08
def lf(w, o=0, a=0, s=0, mx=1024, eadj=0, eincl=False, real=True):
    return {"kind": "lf", "w": w, "o": o, "a": a, "s": s, "max": mx, "eadj": eadj, "eincl": eincl, "real": real}


def frame_cfg_go(c):
    out = dict(c)
    if "dl" in c:
        out["dl"] = c["dl"]
    return out


FRAME_CONFIGS = [
    lf(1, s=1), lf(1, s=0), lf(2, s=2, mx=70000), lf(2, s=0, mx=1024), lf(4, s=4, mx=70000), lf(8, s=8, mx=70000),
    lf(2, a=-2, eincl=True, s=0, mx=70000),           # length includes the length field
    lf(2, eadj=3, a=-3, s=2, mx=70000),               # encoder adjustment compensated by the decoder
    lf(1, o=1, s=0, mx=400, real=False), lf(2, o=3, s=5, mx=70000, real=False), lf(2, o=1, a=2, eadj=-2, s=1, mx=2000, real=False),
    lf(4, o=0, s=5, mx=70000, real=False),            # strip beyond the header
    lf(8, a=2, eadj=-2, s=8, mx=1024, real=False),    # 8-byte field + positive adjustment: a field with the top bit set is negative
    {"kind": "varint", "max": 1024}, {"kind": "varint", "max": 70000}, {"kind": "varint", "max": 127},
    {"kind": "delim", "max": 1024, "dl": 1, "strip": True}, {"kind": "delim", "max": 1024, "dl": 2, "strip": False},
    {"kind": "delim", "max": 70000, "dl": 2, "strip": True},
    # delimiters of 3-5 bytes are self-overlapping patterns (harness frameDelim): "001", "0100", "00101"
    {"kind": "delim", "max": 1024, "dl": 3, "strip": True}, {"kind": "delim", "max": 1024, "dl": 4, "strip": False},
    {"kind": "delim", "max": 70000, "dl": 5, "strip": True},
    {"kind": "fixed", "n": 5}, {"kind": "fixed", "n": 1}, {"kind": "fixed", "n": 1024}, {"kind": "fixed", "n": 2049},
    {"kind": "varlen", "max": 16, "frag": "whole"}, {"kind": "varlen", "max": 1024, "frag": "whole"}, {"kind": "varlen", "max": 8, "frag": "one"},
    {"kind": "packet"},
]
FRAME_LENS = [0, 1, 5, 126, 127, 128, 254, 255, 256, 257, 1020, 1021, 1022, 1023, 1024, 1025, 2048, 2049, 16383, 16384, 65534, 65535, 65536, 65537]


def frame_admitted(c, p):
    k = c["kind"]
    if k == "lf":
        v = p + c["eadj"] + (c["w"] if c["eincl"] else 0)
        return c["o"] + c["w"] + p <= c["max"] and 0 <= v < (256 ** c["w"]) and v + c["a"] == p and c["s"] <= c["o"] + c["w"] + p
    if k == "varint":
        return p <= c["max"]
    if k == "delim":
        return p + c["dl"] <= c["max"]
    if k == "varlen":
        return 1 <= p <= 5000
    if k == "packet":
        return p <= 5000
    return p == c["n"]


def frame_cases(cx, n_per_cfg, lens, with_cuts=True):
    """structured cases: per configuration, sequences of admitted (and boundary) payload lengths, every
    interesting cut position, several fragmentations and carriers"""
    cases = []
    frags = ["one", "rand", "edges", "whole"]
    carriers = ["bytes", "string", "buffer", "reader", "mreader"]
    for ci, c in enumerate(FRAME_CONFIGS):
        adm = [p for p in lens if frame_admitted(c, p)]
        # payloads that make a frame of exactly the maximum, one less, one more (the delimiter encoder does not know the
        # maximum: the decoder must refuse the longer one; for the others only admitted lengths are encoded)
        if c["kind"] in ("lf", "varint", "delim") and c["max"] <= 70000:
            over = {"lf": c.get("o", 0) + c.get("w", 0), "varint": 0, "delim": c.get("dl", 0)}[c["kind"]]
            for d in (-1, 0, 1):
                p = c["max"] - over + d
                if p >= 0 and p not in adm and (frame_admitted(c, p) or c["kind"] == "delim"):
                    adm.append(p)
        if c["kind"] == "fixed":
            adm = [c["n"]]
        # payloads that do not fit the length field: the encoder must refuse, not mis-encode
        over = [p for p in lens if c["kind"] == "lf" and c["real"] and c["w"] <= 2 and p + c["eadj"] + (c["w"] if c["eincl"] else 0) >= 256 ** c["w"]] if c["kind"] == "lf" else []
        for j in range(n_per_cfg):
            k = cx.rnd.randrange(1, 4)
            ps = [adm[cx.rnd.randrange(len(adm))] for _ in range(k)] if adm else []
            if over and j % 5 == 4:
                ps = [over[cx.rnd.randrange(len(over))]]
            sizes = []
            cut = -1
            base = {"id": "f%d-%d" % (ci, j), "cfg": c, "ps": ps, "cut": -1, "frag": frags[j % 4], "little": j % 2 == 1,
                    "carrier": carriers[j % 5] if j % 5 != 4 or c["kind"] in ("lf", "varint") else "bytes", "seed": cx.rnd.randrange(1 << 40)}
            cases.append(base)
            if with_cuts and ps and j % 2 == 0:
                # same stream cut at a random interesting position (computed by the driver from frame layout):
                # encode sizes are known for admitted payloads
                hl = {"lf": c.get("o", 0) + c.get("w", 0), "varint": None, "delim": 0, "fixed": 0, "varlen": 0, "packet": 0}[c["kind"]]
                pos = 0
                marks = [0]
                for p in ps:
                    h = hl if hl is not None else (1 if p < 128 else 2 if p < 16384 else 3)
                    size = h + p + (c["dl"] if c["kind"] == "delim" else 0)
                    marks += [pos + 1, pos + h - 1, pos + h, pos + h + 1, pos + size - 1, pos + size]
                    pos += size
                marks = sorted(set(m for m in marks if 0 <= m <= pos))
                cc = dict(base)
                cc["id"] = base["id"] + "c"
                cc["cut"] = marks[cx.rnd.randrange(len(marks))]
                cases.append(cc)
    return cases


def frame_raw_cases(cx, n):
    cases = []
    hvs = [0, 1, 5, 255, 256, 1023, 1024, 1025, 65535, 65536, 1000000]
    for ci, c in enumerate(FRAME_CONFIGS):
        if c["kind"] not in ("lf", "varint"):
            continue
        for j in range(n):
            hv = hvs[cx.rnd.randrange(len(hvs))]
            if c["kind"] == "lf" and c["w"] <= 2:
                hv = min(hv, 256 ** c["w"] - 1)
            cases.append({"id": "raw%d-%d" % (ci, j), "cfg": c, "raw": True, "hv": hv, "body": [0, 1, 5, 300, 1024][cx.rnd.randrange(5)],
                          "frag": ["one", "rand", "whole"][j % 3], "little": j % 2 == 0, "seed": cx.rnd.randrange(1 << 40), "cut": -1})
        # header values around the maximum-frame boundary, with the whole announced body present: the largest legal
        # frame must be delivered, one byte more must be refused (adjustment and header length count)
        if c["max"] <= 70000:
            hdr = c["o"] + c["w"] if c["kind"] == "lf" else 0
            adj = c.get("a", 0) if c["kind"] == "lf" else 0
            edge = c["max"] - adj - hdr
            for j, d in enumerate(range(-2, abs(adj) + hdr + 3)):
                hv = edge + d
                if hv < 0 or (c["kind"] == "lf" and c["w"] <= 2 and hv >= 256 ** c["w"]):
                    continue
                cases.append({"id": "rawb%d-%d" % (ci, j), "cfg": c, "raw": True, "hv": hv, "body": max(0, hv + adj),
                              "frag": ["whole", "rand", "one"][j % 3] if hv < 5000 else "whole", "little": j % 2 == 0, "seed": cx.rnd.randrange(1 << 40), "cut": -1})
    return cases


def frame_consts(configs, lens, maxframes):
    return {"Configs": Raw("{" + ", ".join(tla_rec(c) for c in configs) + "}"), "Lens": set(lens), "MaxFrames": maxframes,
            "FixEOF": TREE.get("FixEOF", False), "FixCap": TREE.get("FixCap", False)}


def tla_rec(c):
    return "[" + ", ".join("%s |-> %s" % (k, tla(v)) for k, v in c.items()) + "]"


def check_frame(cx, pid):
    cx.module = "frame"
    cx.build()
    quick = cx.tier == "quick"
    inv = {"C04": ["C04_RoundTrip", "C04_EncoderHonest"],
           "C08": ["C08_DeliveredComplete", "C08_WithinMax", "C08_NoPhantom", "C08_BufferedBounded", "C08_Progress"]}[pid]
    # the decoders' algorithms as transcribed in Frame.tla, exhaustively over configurations x payload
    # length sequences x end-of-stream positions
    lens = [0, 1, 5, 127, 128, 254, 255, 256, 1022, 1023, 1024, 1025, 2049, 65535, 65536] if quick else FRAME_LENS
    consts = frame_consts(FRAME_CONFIGS, lens, 2)
    res = generic_mc(cx, "MCframe", "Frame", consts, inv, spec="MCSpec", what="%s over %d codec configurations x sequences of <= 2 payloads from %d lengths x cut points" % (pid, len(FRAME_CONFIGS), len(lens)), timeout=1500)
    cx.selftests["tlc_invariant_result"] = res["violated"]
    spec_violation = res["violated"]
    # the real codecs
    cases = frame_cases(cx, 12 if quick else 80, FRAME_LENS) + frame_raw_cases(cx, 6 if quick else 40)
    rs = run_driver(cx.driver, "frame", cases, cx.wd, tag="f")
    cx.absorb(rs, cases)
    tconsts = frame_consts(FRAME_CONFIGS, FRAME_LENS, 3)
    for chunk in range(0, len(rs), 400):
        v = validate(cx, "TF%d" % chunk, "TraceFrame", tconsts, rs[chunk:chunk + 400], [], {"op": "reset"})
    if rs:
        cx.samples.append({"case": {k: cases[1][k] for k in ("cfg", "ps", "cut", "frag", "carrier")}, "recorded": rs[1]["events"][:5]})
    if pid == "C04":
        # encoders under concurrent writers: several goroutines write []byte messages through one
        # length-field codec instance of a real channel; every frame on the wire must carry its own length
        import chancheck as cc
        from chanlib import cfg as ccfg, NZ_SIZES
        for name, c in [("lfconc", ccfg({"W1": cc.W("MD", "MD"), "W2": cc.W("MD"), "W3": cc.W("MD", "MD")}, qsize=2, until=True)),
                        ("lfconc-sync", ccfg({"W1": cc.W("MD", "MD"), "W2": cc.W("MD"), "W3": cc.W("MD")}, qsize=0))]:
            before = len(cx.fails)
            cc.random_runs(cx, name, c, 40 if quick else 400, sizes=[x for x in NZ_SIZES if x <= 4096], traced=False, codec="lf")
            for f, case, r in cx.fails[before:]:
                case["_module"] = "chan"
    if pid == "C08":
        extra = []
        for ci, c in enumerate(FRAME_CONFIGS):
            if c["kind"] == "packet":
                continue  # not a stream decoder (and not anchored by C08): on a closed stream it delivers empty packets for ever (noted in DESIGN.md)
            for body in (0, 3):
                extra.append({"id": "eof%d-%d" % (ci, body), "cfg": c, "eofloop": True, "body": body, "seed": cx.rnd.randrange(1 << 40)})
            extra.append({"id": "fuzz%d" % ci, "cfg": c, "fuzz": 300 if quick else 5000, "seed": cx.rnd.randrange(1 << 40)})
        rs2 = run_driver(cx.driver, "frame", extra, cx.wd, tag="x")
        cx.absorb(rs2, extra)
        cx.extra_cov["eof_loop_scenarios"] = 2 * (len(FRAME_CONFIGS) - 1)
        cx.extra_cov["adversarial_streams"] = (300 if quick else 5000) * len(FRAME_CONFIGS)
    cx.edges_walked = sum(sum(r["actions"].values()) for r in rs)
    if spec_violation and not [f for f in cx.fails]:
        raise Inconclusive("SPEC-MISMATCH: TLC reports %s on Frame.tla but no execution of the real codecs fails the oracle" % spec_violation)
    # regression self-test: the transcription of the unrepaired code must still violate the property
    if (pid == "C08" and TREE.get("FixEOF")) or (pid == "C04" and TREE.get("FixCap")):
        c0 = dict(consts)
        c0["FixEOF" if pid == "C08" else "FixCap"] = False
        r0 = generic_mc(cx, "MCunfixed", "Frame", c0, inv, spec="MCSpec", what="self-test: the unrepaired %s must violate %s" % ("lazy LimitReader bodies" if pid == "C08" else "length prepender", pid))
        cx.selftests["unfixed_spec_violates"] = r0["violated"]
        if not r0["violated"]:
            raise Inconclusive("self-test failed: the unrepaired Frame specification no longer violates %s" % pid)
    cx.assume.append("byte content equality is decided by the driver's comparison; TLC sees lengths and positions")
    cx.assume.append("4- and 8-byte length-field capacities (>= 2^31) are outside TLC's integers and cannot be allocated; not covered")
    return finish(cx, rule="cases = (codec configuration, payload length sequence, end-of-stream position, fragmentation, carrier type, byte order) run through the "
                            "real encoders/decoders with a fully-reading consumer; distinct_nontrivial = decoder invocations executed and compared with Frame.tla")


def check_C04(cx):
    return check_frame(cx, "C04")


def check_C08(cx):
    return check_frame(cx, "C08")


# ---------------------------------------------------------------- Wire / C17
def wire_op(label):
    name, args = parse_call(label)
    args = unset(args)
    if name == "Write":
        return {"op": "write", "n": args[0]}
    if name == "Writev":
        return {"op": "writev", "ns": args[0]}
    if name == "Flush":
        return {"op": "flush"}
    if name == "Read":
        return {"op": "read", "d": args[0]}
    raise Inconclusive("unknown Wire label " + label)


def check_C17(cx):
    cx.module = "wire"
    cx.build()
    quick = cx.tier == "quick"
    inv = ["C17_NoReorder", "C17_Flushed", "C17_ReadNoLoss", "C17_PendBound"]
    variants = [(4, 4), (4, 0), (0, 4), (0, 0), (1, 1)]
    if not quick:
        variants += [(16, 3), (16, 16), (1, 0), (3, 16), (64, 64)]
    for wv, rv in variants:
        rb = 16 if 0 < rv < 16 else rv
        sizes = sorted(set([0, 1] + [max(0, wv - 1), wv, wv + 1, 2 * wv + 1] + [max(1, rb - 1), rb, rb + 1]))
        frags = [max(1, rb - 1), 1, 2 * rb + 3, 1] if rv else [3, 1, 7]
        # exhaustive: quick = 2 operations with vectors of up to 3 elements; thorough = 3 operations with vectors of up to 2
        # (3 x 3 is 10^7-10^8 transitions per variant); the replayed graph is the 2-operation one, covered completely in thorough
        consts = {"W": wv, "R": rv, "Sizes": set(sizes), "MaxOps": 2 if quick else 3, "Frags": frags, "MaxVecLen": 3 if quick else 2}
        name = "w%dr%d" % (wv, rv)
        gconsts = dict(consts)
        gconsts["MaxOps"] = 2
        gconsts["MaxVecLen"] = 3
        res = generic_mc(cx, "MC" + name, "Wire", consts, inv, what="C17 invariants, W=%d R=%d, sequences of %d operations over sizes %s" % (wv, rv, consts["MaxOps"], sizes))
        init, adj = generic_graph(cx, "G" + name, "Wire", gconsts)
        paths, total, planned = edge_cover(init, adj, cx.rnd, max_paths=600 if quick else None)
        cases = [{"id": "%s-p%d" % (name, i), "w": wv, "r": rv, "frags": frags, "ops": [wire_op(l) for _, l, _ in p], "seed": cx.rnd.randrange(1, 1 << 30)}
                 for i, p in enumerate(paths)]
        rs = run_driver(cx.driver, "wire", cases, cx.wd, tag=name)
        cx.absorb(rs, cases)
        v = validate(cx, "T" + name, "TraceWire", gconsts, rs, inv, {"op": "reset"})
        cx.edges_total += total
        cx.edges_walked += planned if not v["rejected"] else 0
        # longer random sequences with the real buffer sizes of this variant
        rc = dict(consts)
        rc["MaxOps"] = 12
        rc["MaxVecLen"] = 3
        cases = [{"id": "%s-r%d" % (name, i), "w": wv, "r": rv, "frags": frags, "random": 12, "sizes": sizes, "seed": cx.rnd.randrange(1, 1 << 30)}
                 for i in range(40 if quick else 400)]
        rs = run_driver(cx.driver, "wire", cases, cx.wd, tag=name + "r")
        cx.absorb(rs, cases)
        validate(cx, "TR" + name, "TraceWire", rc, rs, inv, {"op": "reset"})
        if rs and len(cx.samples) < 3:
            cx.samples.append({"W": wv, "R": rv, "ops": rs[0]["events"][:8]})
        log("  wire %s: %d edges, %d paths, t=%.1fs" % (name, total, len(paths), time.time() - cx.t0))
    # large realistic buffers (oracle + trace validation, no graph)
    for wv, rv in [(4096, 4096), (2048, 0), (0, 1024)]:
        sizes = [0, 1, 100, 1023, 1024, 1025, 2047, 2048, 2049, 4095, 4096, 4097, 8193]
        frags = [1, 1500, 1, 4096, 7, 9000]
        rc = {"W": wv, "R": rv, "Sizes": set(sizes), "MaxOps": 16, "Frags": frags, "MaxVecLen": 3}
        cases = [{"id": "big%d-%d-r%d" % (wv, rv, i), "w": wv, "r": rv, "frags": frags, "random": 16, "sizes": sizes, "seed": cx.rnd.randrange(1, 1 << 30)}
                 for i in range(30 if quick else 300)]
        rs = run_driver(cx.driver, "wire", cases, cx.wd, tag="big")
        cx.absorb(rs, cases)
        validate(cx, "TB%d_%d" % (wv, rv), "TraceWire", rc, rs, inv, {"op": "reset"})
    # the transports the shipped tcp factory hands out (Connect and Accept side, socket options, buffer sizes) under the
    # same stream oracle over loopback sockets: the peer must receive exactly the written bytes after every Flush and at
    # Close, Read must return exactly the peer's bytes; free-running, segments are not observable so TLC is not involved
    tvars = [(4, 4), (4, 0), (0, 4), (0, 0), (1, 1), (16, 3), (64, 64), (4096, 4096), (2048, 0), (0, 1024)]
    tcases = []
    for i in range(160 if quick else 4000):
        wv, rv = tvars[i % len(tvars)]
        rb = 16 if 0 < rv < 16 else rv
        sizes = sorted(set([0, 1, 100] + [max(0, wv - 1), wv, wv + 1, 2 * wv + 1] + [max(1, rb - 1), rb, rb + 1]))
        tcases.append({"id": "tcp%d" % i, "kind": "wire", "w": wv, "r": rv, "side": ("connect", "accept")[(i // len(tvars)) % 2],
                       "frags": [max(1, rb - 1), 1, 2 * rb + 3, 1, 50], "random": 14 if i % 3 else 40, "sizes": sizes, "seed": cx.rnd.randrange(1, 1 << 30), "_module": "tcp",
                       "duplex": i % 3 == 0})
    rs = run_driver(cx.driver, "tcp", tcases, cx.wd, tag="tcp")
    cx.absorb(rs, tcases)
    cx.extra_cov["real_tcp_runs"] = len(rs)
    cx.assume.append("the scripted in-memory net.Conn stands in for a TCP connection; bufio is modelled exactly (Go 1.23 semantics)")
    return finish(cx, rule="cases = Write/Writev/Flush/Read sequences on transport.NewTransport(conn, R, W) for the four wrapper variants; "
                            "distinct_nontrivial = distinct Wire.tla transitions replayed")


# ---------------------------------------------------------------- Carrier / C14
def check_C14(cx):
    cx.module = "carrier"
    cx.build()
    quick = cx.tier == "quick"
    inv = ["C14_ReadFromExact", "C14_ByteReaderExact", "C14_StealExact"]
    ns = [0, 1, 1023, 1024] if quick else [0, 1, 2, 1023, 1024]
    consts = {"Ns": set(ns), "MaxItems": 3, "FixByteReader": TREE.get("FixByteReader", False), "FixSteal": TREE.get("FixSteal", False)}
    res = generic_mc(cx, "MCcarrier", "Carrier", consts, inv, what="C14 ReadFrom / ByteReader over all reader scripts of <= 3 results from %s x {nil, EOF, error}" % ns)
    spec_violation = res["violated"]
    # every script of the bounded space on the real code (the space is small enough to run completely)
    import itertools
    items = [{"n": n, "err": e} for n in ns for e in ("nil", "eof", "other")]
    cases = []
    k = 0
    for ln in range(0, 4):
        for sc in itertools.product(items, repeat=ln):
            k += 1
            if quick and ln == 3 and cx.rnd.randrange(4) != 0:
                continue
            for asyn in (False, True):
                if asyn and (quick and k % 3 != 0):
                    continue
                cases.append({"id": "rf%d%s" % (k, "a" if asyn else "s"), "op": "readfrom", "script": list(sc), "async": asyn, "seed": cx.rnd.randrange(1, 1 << 30)})
            if all(i["n"] <= 1 for i in sc):
                cases.append({"id": "br%d" % k, "op": "bytereader", "script": list(sc), "seed": cx.rnd.randrange(1, 1 << 30)})
            if all(i["err"] != "other" for i in sc):
                for reused in (False, True):
                    cases.append({"id": "st%d%s" % (k, "r" if reused else "o"), "op": "steal", "script": list(sc), "reused": reused, "via": ("steal", "tobytes")[k % 2],
                                  "seed": cx.rnd.randrange(1, 1 << 30)})
    sizes = [0, 1, 1023, 1024, 1025, 2048, 4097, 65537]
    for kind in ("bytes", "vec", "buffer", "writerto", "reader", "strreader", "string", "int", "struct", "nil"):
        for sz in sizes:
            for asyn in (False, True):
                cases.append({"id": "h-%s-%d-%s" % (kind, sz, asyn), "op": "head", "kind": kind, "size": sz, "parts": 1 + cx.rnd.randrange(3),
                              "async": asyn, "seed": cx.rnd.randrange(1, 1 << 30)})
    # queued channel, sender held back, the caller overwrites its buffers as soon as Write has returned
    for kind in ("bytes", "vec", "buffer"):
        for sz in [1, 100, 1024, 1025, 4097]:
            for parts in (1, 2, 3):
                cases.append({"id": "hr-%s-%d-%d" % (kind, sz, parts), "op": "head", "kind": kind, "size": sz, "parts": parts, "async": True, "reuse": True,
                              "seed": cx.rnd.randrange(1, 1 << 30)})
    for sz in sizes + [100, 700, 3000]:
        cases.append({"id": "helpers-%d" % sz, "op": "helpers", "size": sz, "seed": cx.rnd.randrange(1, 1 << 30)})
    rs = run_driver(cx.driver, "carrier", cases, cx.wd, tag="c")
    cx.absorb(rs, cases)
    # reader / WriterTo / vector messages next to other traffic on one channel under the gate scheduler, with another
    # user of the buffer pool scribbling over whatever is recycled: the carriers' bytes must arrive as they were
    import chancheck as cc
    from chanlib import cfg as ccfg, NZ_SIZES
    before = len(cx.fails)
    for name, c in [("c14rf", ccfg({"W1": cc.W("MR::3", "M"), "W2": cc.W("RF::3", "MV"), "W3": cc.W("MT::2", "MB")}, qsize=2, until=True, trackbufs=True)),
                    ("c14rf8", ccfg({"W1": cc.W("MR::3", "RF::2"), "W2": cc.W("M", "MR::2")}, qsize=8, until=True, trackbufs=True))]:
        cc.random_runs(cx, name, c, 30 if quick else 300, policies=("drain", "window", "uniform"), sizes=[1, 7, 100, 500, 1000, 1023, 1024])
    for f, case, r in cx.fails[before:]:
        case["_module"] = "chan"
    traced = [r for r in rs if r.get("events")]
    tconsts = {"Ns": set(ns), "MaxItems": 3, "FixByteReader": TREE.get("FixByteReader", False), "FixSteal": TREE.get("FixSteal", False)}
    for chunk in range(0, len(traced), 500):
        validate(cx, "TC%d" % chunk, "TraceCarrier", tconsts, traced[chunk:chunk + 500], [], {"op": "reset"})
    cx.edges_walked = len(rs)
    if traced:
        cx.samples.append(traced[len(traced) // 2]["events"][0])
    if spec_violation and not cx.fails:
        raise Inconclusive("SPEC-MISMATCH: TLC reports %s on Carrier.tla but no execution of the real code fails the oracle" % spec_violation)
    if TREE.get("FixByteReader"):
        c0 = dict(consts)
        c0["FixByteReader"] = False
        r0 = generic_mc(cx, "MCunfixed", "Carrier", c0, inv, what="self-test: the unrepaired ByteReader must violate C14_ByteReaderExact")
        cx.selftests["unfixed_spec_violates"] = r0["violated"]
        if not r0["violated"]:
            raise Inconclusive("self-test failed: the unrepaired Carrier specification no longer violates C14")
    if TREE.get("FixSteal"):
        c0 = dict(consts)
        c0["FixSteal"] = False
        r0 = generic_mc(cx, "MCunfixedsteal", "Carrier", c0, ["C14_StealExact"], what="self-test: a stealer that keeps the first chunk of a buffer-reusing WriterTo must violate C14_StealExact")
        cx.selftests["unfixed_steal_spec_violates"] = r0["violated"]
        if not r0["violated"]:
            raise Inconclusive("self-test failed: the unrepaired Carrier specification (FixSteal = FALSE) no longer violates C14_StealExact")
    cx.assume.append("byte equality of transmitted/converted content is the driver's comparison; TLC decides chunking, counts and errors")
    return finish(cx, rule="cases = every reader script of the bounded space (ReadFrom sync/async, ByteReader), every head-handler carrier type x size x channel mode, "
                            "conversion helpers over fragmenting readers; distinct_nontrivial = cases executed on the real code")


# ---------------------------------------------------------------- Idle / C20
def idle_step(label):
    name, args = parse_call(label)
    m = {"Active": "active", "IO": "io", "Tick": "tick", "Inactive": "inactive", "Fire": "fire", "CbCheck": "check",
         "CbDeliver": "deliver", "CbRearm": "rearm"}
    st = {"op": m[name]}
    if args:
        st["i"] = args[0]
    return st


def check_C20(cx):
    cx.module = "idle"
    cx.build()
    quick = cx.tier == "quick"
    inv = ["C20_NotEarly", "C20_Persist", "C20_AfterInactive", "C20_NoLateArm"]
    consts = {"D": 3, "Horizon": 10 if quick else 13, "MaxIO": 3 if quick else 4, "Urgent": False}
    generic_mc(cx, "MCidle", "Idle", consts, inv, what="C20 invariants, idle period 3 ticks, horizon %d, IO at every tick offset, inactive at every point of a running callback" % consts["Horizon"])
    gconsts = {"D": 3, "Horizon": 7, "MaxIO": 2, "Urgent": True}
    init, adj = generic_graph(cx, "Gidle", "Idle", gconsts)
    paths, total, planned = edge_cover(init, adj, cx.rnd, max_paths=160 if quick else 1500, max_len=40)
    tick_ms = 25
    cases = []
    for i, p in enumerate(paths):
        steps = [idle_step(l) for _, l, _ in p]
        cases.append({"id": "g%d" % i, "kind": ("read", "write")[i % 2], "tick_ms": tick_ms, "d": 3, "steps": steps, "panic": i % 5 == 4, "seed": 1})
    try:
        rs = run_driver(cx.driver, "idle", cases, cx.wd, tag="g", shards=16, timeout=1200)
    except Inconclusive as e:
        if "panic:" in str(e) and ("onReadTimeout" in str(e) or "onWriteTimeout" in str(e)):
            f = {"prop": "C20", "key": "timer-goroutine-crash", "msg": "the driver process died from a panic in a timer callback: " + str(e)[:300], "step": 0}
            cx.fails.append((f, {"id": "crash", "steps": []}, {"sched": []}))
            return finish(cx)
        raise
    cx.absorb(rs, cases)
    good = [r for r in rs if not r.get("timing")]
    cx.extra_cov["timing_inconclusive_replays"] = len(rs) - len(good)
    if len(good) < 0.6 * len(rs):
        raise Inconclusive("the machine is too loaded for timed replays: %d of %d replays broke the timing assumption" % (len(rs) - len(good), len(rs)))
    v = validate(cx, "Tidle", "TraceIdle", gconsts, good, inv, {"op": "reset"})
    # the outcome of a check section depends on the real clock: a rejection exactly there is a timing
    # disagreement between the logical and the real clock, not a protocol divergence
    byid = {r["id"]: r for r in good}
    clock = [(rid, st) for rid, st, _ in v["rejected"] if 0 < st <= len(byid[rid]["events"]) and byid[rid]["events"][st - 1]["op"] == "check"]
    if clock:
        cx.extra_cov["timing_inconclusive_replays"] += len(clock)
        cx.nonconforming = [n for n in cx.nonconforming if (n["case"], n["step"]) not in clock]
        v["rejected"] = [x for x in v["rejected"] if (x[0], x[1]) not in clock]
    cx.edges_total += total
    # (edges of the replayed cover whose replay kept the timing assumption; the number of executed steps is kept separately)
    cx.edges_walked += (planned * len(good) // max(1, len(rs))) if not v["rejected"] else 0
    cx.extra_cov["idle_steps_executed"] = sum(len(r["events"]) for r in good)
    log("  idle graph: %d edges, %d paths, %d timing-inconclusive, %d rejected, t=%.1fs" % (total, len(paths), len(rs) - len(good), len(v["rejected"]), time.time() - cx.t0))
    # ungated timing scenarios: reads/writes at random offsets, bursts, silence, inactive, real timers
    cases = []
    for i in range(48 if quick else 400):
        cases.append({"id": "t%d" % i, "kind": ("read", "write")[i % 2], "tick_ms": 10 + (i % 3) * 7, "d": 3 + (i % 2), "free": True, "random": 30,
                      "panic": i % 7 == 6, "seed": cx.rnd.randrange(1, 1 << 30)})
    # persistence: silence for six periods must produce at least two events
    for i in range(8):
        cases.append({"id": "persist%d" % i, "kind": ("read", "write")[i % 2], "tick_ms": 20, "d": 3, "free": True,
                      "steps": [{"op": "active"}] + [{"op": "tick"}] * 18, "panic": i % 4 == 3, "seed": 1})
    # an IO whose handling fails behind the idle handler, then silence: idle events must keep coming
    for i in range(8):
        cases.append({"id": "persistpanic%d" % i, "kind": ("read", "write")[i % 2], "tick_ms": 20, "d": 3, "free": True,
                      "steps": [{"op": "active"}] + [{"op": "tick"}] * (i % 3) + [{"op": "iopanic"}] + [{"op": "tick"}] * 18, "seed": 1})
    # inactive, then silence for four periods, with and without a downstream handler that fails in HandleInactive:
    # no timer may stay armed
    for i in range(8):
        cases.append({"id": "afterinact%d" % i, "kind": ("read", "write")[i % 2], "tick_ms": 20, "d": 3, "free": True, "inactive_panic": i % 4 != 3,
                      "steps": [{"op": "active"}] + [{"op": "tick"}] * (1 + i % 3) + [{"op": "inactive"}] + [{"op": "tick"}] * 14, "seed": 1})
    try:
        rs = run_driver(cx.driver, "idle", cases, cx.wd, tag="t", shards=16, timeout=1200)
    except Inconclusive as e:
        if "panic:" in str(e) and ("onReadTimeout" in str(e) or "onWriteTimeout" in str(e)):
            f = {"prop": "C20", "key": "timer-goroutine-crash", "msg": "the driver process died from a panic in a timer callback: " + str(e)[:300], "step": 0}
            cx.fails.append((f, {"id": "crash", "steps": []}, {"sched": []}))
            return finish(cx)
        raise
    cx.absorb(rs, cases)
    for r, c in zip(rs, cases):
        if c["id"].startswith("persistpanic") and r["delivered"] < 2 and r.get("jitter_ms", 0) < 15:
            f = {"prop": "C20", "key": "not-redelivered-after-failed-io", "msg": "%s-idle handler, idle period 60ms: %d idle events in 360ms of silence after a %s whose handling failed behind the idle handler" % (c["kind"], r["delivered"], c["kind"]), "step": 0}
            cx.fails.append((f, c, r))
        elif c["id"].startswith("persist") and r["delivered"] < 2 and r.get("jitter_ms", 0) < 15:
            f = {"prop": "C20", "key": "not-redelivered", "msg": "%s-idle handler, idle period 60ms: %d idle events in 360ms of silence" % (c["kind"], r["delivered"]), "step": 0}
            cx.fails.append((f, c, r))
    if good:
        cx.samples.append({"script": [e["op"] + (str(e["i"]) if e["op"] in ("fire", "check", "deliver", "rearm") else "") for e in good[0]["events"]]})
    cx.assume.append("timers never fire early; a tick of the logical clock is a real sleep, replays whose real-time check disagrees with the logical clock are dropped (counted)")
    cx.assume.append("event handlers return within one idle period (overlapping callbacks beyond two are not modelled)")
    return finish(cx, rule="cases = scripts of activate / IO / tick / fire / callback-section / inactive steps: TLC state-graph edge covers executed with real timers and "
                            "hook-gated callback sections, and ungated random timing scenarios; distinct_nontrivial = Idle.tla steps executed and validated")


# ---------------------------------------------------------------- Http / C15
def check_C15(cx):
    cx.module = "http"
    cx.build()
    quick = cx.tier == "quick"
    inv = ["C15_OnePerRequest", "C15_KeepAliveRule", "C15_NoEarlyClose"]
    reqs = [{"ver": 11, "close": False, "body": "none"}, {"ver": 11, "close": False, "body": "cl"}, {"ver": 11, "close": False, "body": "chunked"},
            {"ver": 11, "close": True, "body": "none"}, {"ver": 11, "close": True, "body": "cl"}, {"ver": 10, "close": False, "body": "none"},
            {"ver": 10, "close": False, "body": "cl"}]
    progs = [{"read": r, "resp": m, "flush": f} for r in ("all", "none") for m in ("cl", "chunked", "neither") for f in (False, True)]
    consts = {"Reqs": Raw("{" + ", ".join(tla_rec(r) for r in reqs) + "}"), "Progs": Raw("{" + ", ".join(tla_rec(p) for p in progs) + "}"),
              "MaxReqs": 2 if quick else 3, "FixDrain": TREE.get("FixHttpDrain", False), "FixFlush": TREE.get("FixHttpFlush", False)}
    res = generic_mc(cx, "MChttp", "Http", consts, inv, spec="MCSpec",
                     what="C15 over all sequences of <= %d requests from %d shapes x %d handler programs" % (consts["MaxReqs"], len(reqs), len(progs)), timeout=1500)
    spec_violation = res["violated"]
    # the same space on the real codec: all pairs (quick: a seeded sample of them), sizes around the 2048-byte writer buffer
    import itertools
    sizes = [0, 1, 100, 2047, 2048, 2049, 5000]
    blens = [9, 300, 2049, 5000]
    cases = []
    k = 0
    seqs = list(itertools.product(range(len(reqs)), repeat=2)) + ([] if quick else list(itertools.product(range(len(reqs)), repeat=3)))
    for rs_ in seqs:
        for ps_ in itertools.product(range(len(progs)), repeat=len(rs_)):
            k += 1
            # a chunked response to an HTTP/1.0 request is the handler's mistake, not the codec's
            if any(reqs[ri]["ver"] == 10 and progs[pi]["resp"] == "chunked" for ri, pi in zip(rs_, ps_)):
                continue
            if cx.rnd.randrange(12 if quick else 40) != 0:
                continue
            rq = []
            for ri in rs_:
                r = dict(reqs[ri])
                r["blen"] = 0 if r["body"] == "none" else blens[cx.rnd.randrange(len(blens))]
                rq.append(r)
            pg = []
            for pi in ps_:
                p = dict(progs[pi])
                p["size"] = sizes[cx.rnd.randrange(len(sizes))]
                pg.append(p)
            cases.append({"id": "h%d" % k, "reqs": rq, "progs": pg, "frag": ("whole", "one", "rand", "perreq", "heads")[k % 5], "async": k % 3 == 0,
                          "seed": cx.rnd.randrange(1, 1 << 30)})
    rs = run_driver(cx.driver, "http", cases, cx.wd, tag="h", timeout=1500)
    cx.absorb(rs, cases)
    tconsts = dict(consts)
    tconsts["MaxReqs"] = 3
    for chunk in range(0, len(rs), 400):
        validate(cx, "TH%d" % chunk, "TraceHttp", tconsts, rs[chunk:chunk + 400], [], {"op": "reset"})
    cx.edges_walked = sum(r["actions"].get("requests", 0) for r in rs)
    if rs:
        cx.samples.append({"case": {k2: cases[0][k2] for k2 in ("reqs", "progs", "frag", "async")}, "recorded": rs[0]["events"][1:]})
    if spec_violation and not cx.fails:
        raise Inconclusive("SPEC-MISMATCH: TLC reports %s on Http.tla but no execution of the real codec fails the oracle" % spec_violation)
    cx.assume.append("header values and body bytes are compared by the driver; net/http's response parser is the projection to the abstract record")
    return finish(cx, rule="cases = (request sequence, handler programs, body/response sizes, fragmentation, channel mode) run through the real ServerCodec + Handler adapter; "
                            "distinct_nontrivial = requests served and compared with Http.tla")


CHECKS = {"C15": check_C15, "C20": check_C20, "C14": check_C14, "C17": check_C17, "C04": check_C04, "C08": check_C08, "C13": check_C13, "C19": check_C19, "C03": check_C03, "C07": check_C07}
