"""Shared machinery of the model-based checks: TLC runs, state-graph edge covers,
Go driver runs, trace validation, evidence and known-findings handling."""
import json, os, re, shutil, subprocess, sys, time, random, hashlib

VERIF = os.path.dirname(os.path.dirname(os.path.abspath(__file__)))
SPEC = os.path.join(VERIF, "spec")
HARNESS = os.path.join(VERIF, "harness")
REPO = os.environ.get("VERIF_REPO", "/repo")
NCPU = os.cpu_count() or 4


class Inconclusive(Exception):
    """Machinery failure (TLC/JVM/driver/time-out): exit 2, never a verdict."""


def log(*a):
    print(*a, flush=True)


# ---------------------------------------------------------------- work dirs
def workdir(tag):
    root = os.path.join(VERIF, ".work")
    # scratch directories of runs that were killed: their process is gone
    if os.path.isdir(root) and not os.environ.get("VERIF_KEEP"):
        for name in os.listdir(root):
            m = re.match(r".*-(\d+)$", name)
            if m and not os.path.exists("/proc/%s" % m.group(1)):
                shutil.rmtree(os.path.join(root, name), ignore_errors=True)
    d = os.path.join(root, "%s-%d" % (tag, os.getpid()))
    shutil.rmtree(d, ignore_errors=True)
    os.makedirs(d)
    return d


def cleanup(d):
    if os.environ.get("VERIF_KEEP"):
        return
    shutil.rmtree(d, ignore_errors=True)


# ---------------------------------------------------------------- TLA values
def tla(v):
    if isinstance(v, bool):
        return "TRUE" if v else "FALSE"
    if isinstance(v, int):
        return str(v)
    if isinstance(v, str):
        return '"%s"' % v
    if isinstance(v, (list, tuple)):
        return "<<" + ", ".join(tla(x) for x in v) + ">>"
    if isinstance(v, (set, frozenset)):
        return "{" + ", ".join(tla(x) for x in sorted(v, key=repr)) + "}"
    if isinstance(v, dict):
        if not v:
            return '[x \\in {} |-> "x"]'
        return "(" + " @@ ".join("%s :> %s" % (tla(k), tla(x)) for k, x in v.items()) + ")"
    if isinstance(v, Raw):
        return v.s
    raise TypeError(v)


class Raw:
    def __init__(self, s):
        self.s = s


def write_mc(wd, name, extends, consts, cfg_lines, extra_defs=""):
    """Write MC module <name>.tla extending <extends> with constant definitions and <name>.cfg."""
    lines = ["---- MODULE %s ----" % name, "EXTENDS %s" % extends]
    cfg = []
    for k, v in consts.items():
        lines.append("mc_%s == %s" % (k, tla(v)))
        cfg.append(" %s <- mc_%s" % (k, k))
    lines.append(extra_defs)
    lines.append("====")
    with open(os.path.join(wd, name + ".tla"), "w") as f:
        f.write("\n".join(lines) + "\n")
    with open(os.path.join(wd, name + ".cfg"), "w") as f:
        f.write("\n".join(cfg_lines[:1] + ["CONSTANTS"] + cfg + cfg_lines[1:]) + "\n")
    for fn in os.listdir(SPEC):
        if fn.endswith(".tla"):
            shutil.copy(os.path.join(SPEC, fn), wd)


# ---------------------------------------------------------------- TLC
TLC_JAR = "/opt/veriftools/tla/tla2tools.jar:/opt/veriftools/tla/CommunityModules-deps.jar"


TSCALE = 1


def run_tlc(wd, name, args=(), workers=None, timeout=600, env=None, heap=None):
    """Run TLC on <name>.tla in wd. Returns dict with parsed results."""
    timeout *= TSCALE
    workers = workers or min(NCPU, 16)
    meta = os.path.join(wd, "meta-" + name)
    cmd = ["java", "-XX:+UseParallelGC"]
    if heap:
        cmd.append("-Xmx" + heap)
    cmd += ["-Xss64m", "-cp", TLC_JAR, "tlc2.TLC", "-workers", str(workers), "-metadir", meta,
            "-noGenerateSpecTE"] + list(args) + [name + ".tla"]
    e = dict(os.environ)
    e.pop("JAVA_TOOL_OPTIONS", None)
    if env:
        e.update(env)
    t0 = time.time()
    try:
        p = subprocess.run(cmd, cwd=wd, env=e, stdout=subprocess.PIPE, stderr=subprocess.STDOUT,
                           timeout=timeout, text=True, errors="replace")
    except subprocess.TimeoutExpired as ex:
        raise Inconclusive("TLC timed out after %ss on %s" % (timeout, name))
    out = p.stdout
    res = {"out": out, "rc": p.returncode, "wall": time.time() - t0, "name": name}
    m = re.search(r"(\d+) states generated, (\d+) distinct states found", out)
    if m:
        res["generated"], res["distinct"] = int(m.group(1)), int(m.group(2))
    m = re.search(r"depth of the complete state graph search is (\d+)", out)
    if m:
        res["depth"] = int(m.group(1))
    res["violated"] = None
    m = re.search(r"Error: Invariant (\S+) is violated", out)
    if m:
        res["violated"] = m.group(1)
    m = re.search(r"Error: Action property (\S+)", out)
    if m:
        res["violated"] = m.group(1)
    if "Temporal properties were violated" in out:
        res["violated"] = "temporal"
    res["postcondition_false"] = "Postcondition" in out and "is false" in out
    res["ok"] = ("Model checking completed. No error has been found." in out) or \
                ("Finished in" in out and "Error" not in out and "-simulate" in " ".join(args))
    res["trace"] = parse_trace(out) if res["violated"] else []
    fatal = None
    if not m and not res["ok"] and not res["violated"] and not res["postcondition_false"]:
        if "generated" not in res or "Error:" in out:
            em = re.search(r"Error: (.*)", out)
            fatal = em.group(1) if em else "TLC failed (rc %d)" % p.returncode
    res["fatal"] = fatal
    shutil.rmtree(meta, ignore_errors=True)
    return res


def tlc_must(res):
    if res.get("fatal"):
        tail = "\n".join(res["out"].splitlines()[-25:])
        raise Inconclusive("TLC failed on %s: %s\n%s" % (res["name"], res["fatal"], tail))
    return res


_state_hdr = re.compile(r"^State (\d+): <(\w+)(?:\((.*?)\))? line")


def parse_trace(out):
    """Counterexample -> list of (action, args, {var: text})."""
    steps = []
    cur = None
    for line in out.splitlines():
        m = _state_hdr.match(line)
        if m:
            cur = {"action": m.group(2), "args": m.group(3) or "", "vars": {}, "n": int(m.group(1))}
            steps.append(cur)
            last = None
            continue
        if line.startswith("State ") and "<Initial predicate>" in line:
            cur = {"action": "Init", "args": "", "vars": {}, "n": 1}
            steps.append(cur)
            continue
        if cur is not None:
            m2 = re.match(r"^/\\ (\w+) = (.*)$", line)
            if m2:
                last = m2.group(1)
                cur["vars"][last] = m2.group(2)
            elif line.strip() and not line.startswith("Error") and last and cur["vars"]:
                if re.match(r"^\s", line):
                    cur["vars"][last] += " " + line.strip()
    return steps


def schedule_of_trace(steps):
    """Channel-style labels Step("W1") / Fault("S1") / CtxCancel("W1") -> [[kind, proc]]."""
    kinds = {"Step": "step", "Fault": "fault", "CtxCancel": "cancel", "ParentCancel": "pcancel", "PoolUser": "pooluser", "Scribble": "scribble"}
    out = []
    for s in steps:
        if s["action"] in kinds:
            out.append([kinds[s["action"]], s["args"].strip().strip('"')])
    return out


# ---------------------------------------------------------------- state graph cover
_edge = re.compile(r'^(-?\d+) -> (-?\d+) \[label="([^"\\]*(?:\\.[^"\\]*)*)"')
_node = re.compile(r'^(-?\d+) \[label="')


def parse_dot(path, want_sig=None):
    """Stream-parse TLC's dot dump: returns (init, adj, nodesig).
    adj: node -> list of (label, dst); nodesig: node -> signature via want_sig(label_text)."""
    adj = {}
    init = None
    sig = {}
    seen_edges = set()
    with open(path, errors="replace") as f:
        for line in f:
            m = _edge.match(line)
            if m:
                a, b, lab = m.group(1), m.group(2), m.group(3).replace('\\"', '"')
                key = (a, b, lab)
                if key in seen_edges:
                    continue
                seen_edges.add(key)
                adj.setdefault(a, []).append((lab, b))
                adj.setdefault(b, [])
                continue
            m = _node.match(line)
            if m:
                n = m.group(1)
                adj.setdefault(n, [])
                if init is None and "style = filled" in line[-40:]:
                    init = n
                if want_sig is not None and n not in sig:
                    end = line.find('",', m.end())
                    sig[n] = want_sig(line[m.end():end].replace("\\n", "\n").replace('\\"', '"').replace("\\\\", "\\"))
    return init, adj, sig


def edge_cover(init, adj, rnd, max_paths=None, max_len=400, targets=None):
    """Greedy edge cover: paths from init, each = shortest path to an uncovered edge
    followed by a walk along uncovered edges. Returns list of paths; a path is a list of
    (src, label, dst)."""
    from collections import deque
    parent = {init: None}
    dq = deque([init])
    order = []
    while dq:
        u = dq.popleft()
        order.append(u)
        for lab, v in adj.get(u, []):
            if v not in parent:
                parent[v] = (u, lab)
                dq.append(v)
    uncovered = set()
    for u in order:
        for lab, v in adj[u]:
            uncovered.add((u, lab, v))
    total = len(uncovered)
    if targets is not None:
        want = set(targets)
    else:
        want = None
    pool = [e for u in order for e in [(u, lab, v) for lab, v in adj[u]]]
    if want is None and max_paths is not None:
        rnd.shuffle(pool)
    paths = []
    for e in pool:
        if e not in uncovered:
            continue
        if max_paths is not None and len(paths) >= max_paths:
            break
        u = e[0]
        pre = []
        x = u
        while parent[x] is not None:
            pu, lab = parent[x]
            pre.append((pu, lab, x))
            x = pu
        pre.reverse()
        path = pre + [e]
        for pe in path:
            uncovered.discard(pe)
        cur = e[2]
        while len(path) < max_len:
            nxt = [(cur, lab, v) for lab, v in adj[cur] if (cur, lab, v) in uncovered]
            if not nxt:
                break
            ne = nxt[rnd.randrange(len(nxt))]
            uncovered.discard(ne)
            path.append(ne)
            cur = ne[2]
        paths.append(path)
    return paths, total, total - len(uncovered)


def pair_graph(init, adj):
    """Line graph of a state graph: its nodes are the edges, so that an edge cover of it walks every pair of
    consecutive transitions (2-switch coverage). Labels are kept, a path of it is a schedule as before."""
    root = ("INIT",)
    adj2 = {root: [(lab, (init, lab, v)) for lab, v in adj.get(init, [])]}
    todo = [n for _, n in adj2[root]]
    while todo:
        e = todo.pop()
        if e in adj2:
            continue
        adj2[e] = [(lab, (e[2], lab, w)) for lab, w in adj.get(e[2], [])]
        todo.extend(n for _, n in adj2[e] if n not in adj2)
    return root, adj2


# ---------------------------------------------------------------- Go driver
GOENV = {"GOFLAGS": "-mod=mod", "GOPROXY": "off", "GOSUMDB": "off", "GOTOOLCHAIN": "local"}


def build_driver(wd, tags="verif"):
    """Build the harness against /repo's current working tree with hooks on."""
    e = dict(os.environ)
    e.update(GOENV)
    out = os.path.join(wd, "driver")
    t0 = time.time()
    cmd = ["go", "build", "-tags", tags, "-o", out]
    if REPO != "/repo":
        # evaluate another tree (a scratch worktree with a seeded change) without touching go.mod
        txt = open(os.path.join(HARNESS, "go.mod")).read()
        txt = re.sub(r"replace github.com/go-netty/go-netty => \S+", "replace github.com/go-netty/go-netty => %s" % REPO, txt)
        mf = os.path.join(wd, "go.mod")
        open(mf, "w").write(txt)
        if os.path.exists(os.path.join(HARNESS, "go.sum")):
            shutil.copy(os.path.join(HARNESS, "go.sum"), os.path.join(wd, "go.sum"))
        else:
            open(os.path.join(wd, "go.sum"), "w").close()
        cmd += ["-modfile", mf]
    p = subprocess.run(cmd + ["./cmd/driver"], cwd=HARNESS, env=e,
                       stdout=subprocess.PIPE, stderr=subprocess.STDOUT, text=True, timeout=600)
    if p.returncode != 0:
        raise Inconclusive("harness does not build against %s:\n%s" % (REPO, p.stdout[-3000:]))
    return out, time.time() - t0


def run_driver(driver, module, cases, wd, tag="run", shards=None, timeout=900, env=None):
    """Run cases (list of dicts) through the Go driver, sharded over processes."""
    timeout *= TSCALE
    if not cases:
        return []
    shards = shards or min(NCPU, max(1, len(cases) // 4), 16)
    inp = os.path.join(wd, "%s-cases.ndjson" % tag)
    with open(inp, "w") as f:
        for c in cases:
            f.write(json.dumps(c) + "\n")
    procs = []
    e = dict(os.environ)
    if env:
        e.update(env)
    for i in range(shards):
        outp = os.path.join(wd, "%s-res-%d.ndjson" % (tag, i))
        p = subprocess.Popen([driver, module, "-in", inp, "-out", outp, "-shard", str(i), "-shards", str(shards)],
                             stdout=subprocess.PIPE, stderr=subprocess.STDOUT, text=True, env=e)
        procs.append((p, outp))
    results = {}
    deadline = time.time() + timeout
    for p, outp in procs:
        try:
            so, _ = p.communicate(timeout=max(1, deadline - time.time()))
        except subprocess.TimeoutExpired:
            for q, _ in procs:
                q.kill()
            raise Inconclusive("driver %s timed out after %ss" % (module, timeout))
        if p.returncode != 0:
            so = so or ""
            raise Inconclusive("driver %s failed (rc %s): %s%s" % (module, p.returncode, so[:1500], ("\n...\n" + so[-1500:]) if len(so) > 3000 else so[1500:]))
        with open(outp) as f:
            for line in f:
                r = json.loads(line)
                results[r["id"]] = r
        os.remove(outp)
    out = []
    for c in cases:
        if c["id"] not in results:
            raise Inconclusive("driver produced no result for case %s" % c["id"])
        out.append(results[c["id"]])
    # a case the harness itself could not carry through (the system did not settle in time on a loaded machine, ...)
    # is run once more on its own, with the machine less crowded by the sibling shards
    redo = [c for c, r in zip(cases, out) if r.get("harness_err")]
    if redo and not tag.endswith("-redo") and len(redo) <= max(8, len(cases) // 20):
        again = run_driver(driver, module, redo, wd, tag=tag + "-redo", shards=min(2, len(redo)), timeout=timeout // max(1, TSCALE), env=env)
        byid = {r["id"]: r for r in again}
        out = [byid.get(r["id"], r) if r.get("harness_err") else r for r in out]
    return out


# ---------------------------------------------------------------- evidence / findings
def write_evidence(pid, tier, seed, level, coverage, wall, violations, assumptions):
    if REPO != "/repo":
        # evaluating a scratch tree (seeded change): never touch the evidence of the real tree
        d = os.path.join(VERIF, ".work", "evidence-scratch")
        os.makedirs(d, exist_ok=True)
        with open(os.path.join(d, "%s.json" % pid), "w") as f:
            json.dump({"property_id": pid, "tier": tier, "seed": seed, "coverage": coverage, "violations": violations}, f, indent=1)
        return
    os.makedirs(os.path.join(VERIF, "evidence"), exist_ok=True)
    ev = {"property_id": pid, "tier": tier, "seed": seed, "level": level, "coverage": coverage,
          "assumptions": assumptions, "wall_s": round(wall, 2), "violations": violations}
    tmp = os.path.join(VERIF, "evidence", ".%s.json.%d" % (pid, os.getpid()))
    with open(tmp, "w") as f:
        json.dump(ev, f, indent=1, sort_keys=True)
    os.replace(tmp, os.path.join(VERIF, "evidence", "%s.json" % pid))


def load_findings():
    p = os.path.join(VERIF, "KNOWN_FINDINGS.json")
    if not os.path.exists(p):
        return []
    return json.load(open(p))["findings"]


def open_finding(pid, key):
    for f in load_findings():
        if f["property"] == pid and f["status"] == "open":
            if key == f["key"] or key.startswith(f["key"] + "/"):
                return f
    return None


def save_replay(pid, obj):
    d = os.path.join(VERIF, "replays")
    os.makedirs(d, exist_ok=True)
    h = hashlib.sha1(json.dumps(obj, sort_keys=True).encode()).hexdigest()[:10]
    p = os.path.join(d, "%s-%s.json" % (pid, h))
    with open(p, "w") as f:
        json.dump(obj, f, indent=1, sort_keys=True)
    return p


# ---------------------------------------------------------------- trace validation
def write_trace_file(path, results, reset=None):
    reset = reset or {"a": "reset", "p": ""}
    n = 0
    with open(path, "w") as f:
        first = True
        for r in results:
            if not first:
                rr = dict(reset)
                rr["case"] = r["id"]
                f.write(json.dumps(rr) + "\n")
                n += 1
            first = False
            for e in r["events"]:
                e = dict(e)
                e["case"] = r["id"]
                f.write(json.dumps(e) + "\n")
                n += 1
    return n


def validate_traces_generic(wd, name, trace_module, consts, results, invariants, timeout=600, reset=None):
    """TLC checks that every recorded execution is a behaviour of the spec (trace_module).
    Returns dict(accepted=[ids], rejected=[(id, step, line)], states=n, inv_violations=[...])."""
    todo = [r for r in results if r.get("events")]
    accepted, rejected, invviol = [], [], []
    states = 0
    rounds = 0
    while todo:
        rounds += 1
        if rounds > 8:
            # many executions do not conform: stop validating (the oracle decides the verdict);
            # the rest is reported as rejected without a position
            rejected += [(r["id"], 0, 0) for r in todo]
            break
        tf = os.path.join(wd, "%s-trace-%d.ndjson" % (name, rounds))
        nlines = write_trace_file(tf, todo, reset)
        cfg_lines = ["SPECIFICATION TraceSpec", "CONSTRAINT Mark", "POSTCONDITION TraceAccepted"]
        if invariants:
            cfg_lines.append("INVARIANTS " + " ".join(invariants))
        cfg_lines.append("CHECK_DEADLOCK FALSE")
        write_mc(wd, name, trace_module, consts, cfg_lines)
        res = run_tlc(wd, name, workers=1, timeout=timeout, env={"TRACE_FILE": tf})
        if res.get("fatal") and not res["postcondition_false"] and not res["violated"]:
            tlc_must(res)
        states += res.get("distinct", 0)
        m = re.search(r'"HIGHWATER", (\d+)', res["out"])
        hw = int(m.group(1)) if m else None
        os.remove(tf)
        if res["violated"] and res["violated"] != "temporal":
            # an invariant failed on a real execution: find the case from the trace position
            lm = re.findall(r"/\\ l = (\d+)", res["out"])
            line = int(lm[-1]) if lm else 1
            bad, step = case_at(todo, line - 1)
            invviol.append((bad["id"], step, res["violated"]))
            # keep validating the step relation without the invariant that failed
            invariants = [i for i in invariants if i != res["violated"]]
            continue
        if hw is None:
            raise Inconclusive("trace validation of %s: no high-water mark in TLC output\n%s" % (name, res["out"][-1500:]))
        if hw >= nlines + 1:
            accepted += [r["id"] for r in todo]
            break
        # line hw (1-based) was not matched
        bad, step = case_at(todo, hw)
        rejected.append((bad["id"], step, hw))
        idx = todo.index(bad)
        accepted += [r["id"] for r in todo[:idx]]
        todo = todo[idx + 1:]
    return {"accepted": accepted, "rejected": rejected, "states": states, "inv_violations": invviol}


def case_at(results, line):
    """Which case contains 1-based trace line `line` and which step of it."""
    pos = 0
    first = True
    for r in results:
        if not first:
            pos += 1
        first = False
        n = len(r["events"])
        if line <= pos + n:
            return r, line - pos
        pos += n
    return results[-1], len(results[-1]["events"])
