------------------------------ MODULE TraceWire ------------------------------
EXTENDS Wire, Json, IOUtils
Trace == ndJsonDeserialize(IOEnv.TRACE_FILE)
VARIABLE l
TraceInit == Init /\ l = 1 /\ TLCSet(1, 1)
Reset ==
    /\ written' = 0 /\ pend' = 0 /\ segs' = <<>>
    /\ frags' = Frags /\ rbuf' = 0 /\ got' = 0
    /\ nops' = 0 /\ last' = [op |-> "init"]
TraceStep ==
    /\ l <= Len(Trace)
    /\ l' = l + 1
    /\ LET e == Trace[l] IN
       CASE e.op = "reset" -> Reset
         [] e.op = "write" -> Write(e.n) /\ last'.segs = e.segs
         [] e.op = "writev" -> Writev(e.ns) /\ last'.segs = e.segs
         [] e.op = "flush" -> Flush /\ last'.segs = e.segs
         [] e.op = "read" -> Read(e.d) /\ last'.n = e.n
TraceSpec == TraceInit /\ [][TraceStep]_<<vars, l>>
Mark == (l > TLCGet(1) => TLCSet(1, l)) /\ TRUE
TraceAccepted == PrintT(<<"HIGHWATER", TLCGet(1)>>) /\ TLCGet(1) = Len(Trace) + 1
=============================================================================
