------------------------------- MODULE TraceIdle -------------------------------
(* Trace validation of gated executions of the real idle handlers: the logical clock is the number
   of Tick steps (sleeps of one tick) the harness took. *)
EXTENDS Idle, Json, IOUtils
Trace == ndJsonDeserialize(IOEnv.TRACE_FILE)
VARIABLE l
TraceInit == Init /\ l = 1 /\ TLCSet(1, 1)
Reset ==
    /\ now' = 0 /\ phase' = "new" /\ lastIO' = 0 /\ tfield' = "nil" /\ deadline' = -1 /\ hctx' = FALSE
    /\ cb' = [i \in Slots |-> IdleCb] /\ events' = <<>> /\ inflightAtInactive' = 0 /\ afterInactive' = 0 /\ nio' = 0
TraceStep ==
    /\ l <= Len(Trace)
    /\ l' = l + 1
    /\ LET e == Trace[l] IN
       CASE e.op = "reset" -> Reset
         [] e.op = "active" -> Active
         [] e.op = "io" -> IO
         [] e.op = "tick" -> Tick
         [] e.op = "inactive" -> Inactive
         [] e.op = "fire" -> Fire(e.i)
         [] e.op = "check" -> CbCheck(e.i) /\ cb'[e.i].pc = e.out
         [] e.op = "deliver" -> CbDeliver(e.i)
         [] e.op = "rearm" -> CbRearm(e.i)
    /\ (Trace[l].op # "reset") => (now' = Trace[l].tick /\ Len(events') = Trace[l].nev)
TraceSpec == TraceInit /\ [][TraceStep]_<<vars, l>>
Mark == (l > TLCGet(1) => TLCSet(1, l)) /\ TRUE
TraceAccepted == PrintT(<<"HIGHWATER", TLCGet(1)>>) /\ TLCGet(1) = Len(Trace) + 1
=============================================================================
