----------------------------- MODULE Ownership -----------------------------
(***************************************************************************)
(* Counting abstraction of channel.go's sender-ownership protocol on an    *)
(* open queued channel, for ANY number of writers and sender incarnations: *)
(* only integers.  The safety core of C02 ("whenever something is queued,  *)
(* somebody is committed to look at the queue again") is an inductive      *)
(* invariant, discharged by Apalache for unbounded values.                 *)
(*                                                                         *)
(* Correspondence with Channel.tla (one abstract action per group of       *)
(* concrete actions): Enqueue = WSelect's enqueue branch (also for a woken *)
(* blocked writer); Cas = WCas; Start = XStart; Poll = SPoll with a packet;*)
(* PollWake = SPoll waking a blocked writer;                               *)
(* SawEmpty = SPoll/SLen finding the queue empty (then Writev, Flush);     *)
(* Release = SRelease; Recheck = SRecheck; Recas = SRecas.                 *)
(***************************************************************************)
EXTENDS Integers

VARIABLES
    \* @type: Int;
    q,        \* packets in the queue
    \* @type: Int;
    running,  \* the ownership flag
    \* @type: Int;
    ncas,     \* writers that have enqueued and stand before their CAS
    \* @type: Int;
    nstart,   \* sender incarnations handed to the executor, not yet running
    \* @type: Int;
    drain,    \* the owner is in its drain loop (poll / writev / len)
    \* @type: Int;
    rel,      \* the owner found the queue empty and is about to flush and release
    \* @type: Int;
    chk,      \* incarnations that released and are about to re-check the queue length
    \* @type: Int;
    recas     \* incarnations that saw a non-empty queue and are about to re-acquire

\* @type: <<Int, Int, Int, Int, Int, Int, Int, Int>>;
vars == <<q, running, ncas, nstart, drain, rel, chk, recas>>

Init == q = 0 /\ running = 0 /\ ncas = 0 /\ nstart = 0 /\ drain = 0 /\ rel = 0 /\ chk = 0 /\ recas = 0

Enqueue == q' = q + 1 /\ ncas' = ncas + 1 /\ UNCHANGED <<running, nstart, drain, rel, chk, recas>>

Cas ==
    /\ ncas > 0 /\ ncas' = ncas - 1
    /\ IF running = 0
       THEN running' = 1 /\ nstart' = nstart + 1
       ELSE UNCHANGED <<running, nstart>>
    /\ UNCHANGED <<q, drain, rel, chk, recas>>

Start == nstart > 0 /\ nstart' = nstart - 1 /\ drain' = drain + 1 /\ UNCHANGED <<q, running, ncas, rel, chk, recas>>

Poll == drain > 0 /\ q > 0 /\ q' = q - 1 /\ UNCHANGED <<running, ncas, nstart, drain, rel, chk, recas>>

\* a bounded queue: the dequeue hands the free slot to a writer blocked on the full queue, whose
\* packet is enqueued in the same step (Poll composed with Enqueue)
PollWake == drain > 0 /\ q > 0 /\ ncas' = ncas + 1 /\ UNCHANGED <<q, running, nstart, drain, rel, chk, recas>>

SawEmpty == drain > 0 /\ q = 0 /\ drain' = drain - 1 /\ rel' = rel + 1 /\ UNCHANGED <<q, running, ncas, nstart, chk, recas>>

Release == rel > 0 /\ rel' = rel - 1 /\ running' = 0 /\ chk' = chk + 1 /\ UNCHANGED <<q, ncas, nstart, drain, recas>>

Recheck ==
    /\ chk > 0 /\ chk' = chk - 1
    /\ IF q > 0 THEN recas' = recas + 1 ELSE UNCHANGED recas
    /\ UNCHANGED <<q, running, ncas, nstart, drain, rel>>

Recas ==
    /\ recas > 0 /\ recas' = recas - 1
    /\ IF running = 0
       THEN running' = 1 /\ drain' = drain + 1
       ELSE UNCHANGED <<running, drain>>
    /\ UNCHANGED <<q, ncas, nstart, rel, chk>>

Next == Enqueue \/ Cas \/ Start \/ Poll \/ PollWake \/ SawEmpty \/ Release \/ Recheck \/ Recas

Spec == Init /\ [][Next]_vars

-----------------------------------------------------------------------------
TypeOK ==
    /\ q \in Nat /\ ncas \in Nat /\ nstart \in Nat /\ drain \in Nat /\ rel \in Nat /\ chk \in Nat /\ recas \in Nat
    /\ running \in {0, 1}

\* exactly the owner holds the flag: at most one incarnation is in the owning phases
OneOwner == running = nstart + drain + rel

\* C02 safety core
Responsible == q > 0 => (running = 1 \/ ncas > 0 \/ chk > 0 \/ recas > 0)

IndInv == TypeOK /\ OneOwner /\ Responsible

\* for the inductive step: any state satisfying IndInv
IndInit ==
    /\ q \in Int /\ running \in Int /\ ncas \in Int /\ nstart \in Int
    /\ drain \in Int /\ rel \in Int /\ chk \in Int /\ recas \in Int
    /\ IndInv
=============================================================================
