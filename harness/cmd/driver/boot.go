package main

// Bootstrap driver (C13): runs the real bootstrap (listeners, Connect, Shutdown, holder) with a
// gated mock transport factory / acceptor / executor under the gate scheduler, following a
// TLC-derived or random schedule, records events for TLC trace validation against
// Bootstrap.tla and evaluates the C13 oracle at quiescence.

import (
	"errors"
	"fmt"
	"io"
	"math/rand"
	"sort"
	"strings"
	"sync"

	netty "github.com/go-netty/go-netty"
	"github.com/go-netty/go-netty/transport"

	"verifharness/mock"
	"verifharness/sched"
)

type BootCase struct {
	ID           string          `json:"id"`
	Listeners    []int           `json:"listeners"`
	Program      [][]interface{} `json:"program"`
	MaxIncoming  int             `json:"max_incoming"`
	Shutdown     bool            `json:"shutdown"`
	Schedule     [][]string      `json:"schedule"` // [kind, proc]: step / incoming
	Random       *RandomSpec     `json:"random"`
	MaxSteps     int             `json:"max_steps"`
	MaxChans     int             `json:"max_chans"`
	ActivePanics bool            `json:"active_panics"` // a user handler panics in HandleActive, the exception handler keeps the connection
}

type BootChSt struct {
	Closed    bool `json:"closed"`
	TCloses   int  `json:"tcloses"`
	Inactives int  `json:"inactives"`
}

type BootSt struct {
	Bctx     bool                `json:"bctx"`
	Acc      map[string]string   `json:"acc"`
	Lret     map[string]string   `json:"lret"`
	Ch       map[string]BootChSt `json:"ch"`
	Incoming int                 `json:"incoming"`
	NCh      int                 `json:"nch"`
}

type BootEvent struct {
	Case string            `json:"case,omitempty"`
	P    string            `json:"p"`
	A    string            `json:"a"`
	L    int               `json:"l"`
	Pcs  map[string]string `json:"pcs"`
	St   BootSt            `json:"st"`
}

type BootResult struct {
	ID         string            `json:"id"`
	Events     []BootEvent       `json:"events"`
	Steps      int               `json:"steps"`
	Diverged   int               `json:"diverged"`
	Fails      []Fail            `json:"fails"`
	HarnessErr string            `json:"harness_err,omitempty"`
	Sched      [][]string        `json:"sched"`
	Final      map[string]string `json:"final"`
	Actions    map[string]int    `json:"actions"`
}

type bootAcceptor struct {
	w       *bootWorld
	l       int
	mu      sync.Mutex
	closed  bool
	closes  int
	backlog []transport.Transport
	wake    chan struct{}
}

func (a *bootAcceptor) Accept() (transport.Transport, error) {
	a.w.s.Gate(a, "a.accept")
	for {
		a.mu.Lock()
		if a.closed {
			a.mu.Unlock()
			return nil, &mock.NetErr{Msg: "mock: acceptor closed"}
		}
		if len(a.backlog) > 0 {
			t := a.backlog[0]
			a.backlog = a.backlog[1:]
			a.mu.Unlock()
			return t, nil
		}
		a.mu.Unlock()
		<-a.wake
	}
}

func (a *bootAcceptor) Close() error {
	a.w.s.Gate(a, "a.close")
	a.mu.Lock()
	a.closes++
	first := !a.closed
	a.closed = true
	a.mu.Unlock()
	if first {
		close(a.wake)
	}
	return nil
}

func (a *bootAcceptor) push(t transport.Transport) {
	a.mu.Lock()
	a.backlog = append(a.backlog, t)
	a.mu.Unlock()
	select {
	case a.wake <- struct{}{}:
	default:
	}
}

type bootFactory struct{ w *bootWorld }

func (f *bootFactory) Schemes() transport.Schemes { return transport.Schemes{"mock"} }

func (f *bootFactory) Connect(options *transport.Options) (transport.Transport, error) {
	return f.w.newTransport(), nil
}

func (f *bootFactory) Listen(options *transport.Options) (transport.Acceptor, error) {
	f.w.s.Gate(f, "f.listen")
	var l int
	fmt.Sscanf(options.Address.Host, "l%d", &l)
	a := &bootAcceptor{w: f.w, l: l, wake: make(chan struct{}, 8)}
	f.w.mu.Lock()
	f.w.acceptors[l] = append(f.w.acceptors[l], a)
	f.w.mu.Unlock()
	return a, nil
}

type bootProbe struct {
	w *bootWorld
}

func (p bootProbe) HandleRead(ctx netty.InboundContext, message netty.Message) {
	buf := make([]byte, 16)
	if _, err := message.(io.Reader).Read(buf); err != nil {
		panic(err)
	}
}

func (p bootProbe) HandleInactive(ctx netty.InactiveContext, ex netty.Exception) {
	p.w.mu.Lock()
	p.w.inactives[ctx.Channel().ID()]++
	p.w.mu.Unlock()
	ctx.HandleInactive(ex)
}

func (p bootProbe) HandleActive(ctx netty.ActiveContext) {
	if p.w.c.ActivePanics {
		panic(fmt.Errorf("active handler failed"))
	}
	ctx.HandleActive()
}

func (p bootProbe) HandleException(ctx netty.ExceptionContext, ex netty.Exception) {
	if p.w.c.ActivePanics && ex != nil && ex.Error() == "active handler failed" {
		return // the application keeps the connection
	}
	ctx.HandleException(ex)
}

type bootWorld struct {
	c          *BootCase
	s          *sched.Sched
	bs         netty.Bootstrap
	mu         sync.Mutex
	acceptors  map[int][]*bootAcceptor
	transports []*mock.Transport
	chans      map[int64]netty.Channel
	inactives  map[int64]int
	lret       map[int]string
	listeners  map[int]netty.Listener
	incoming   int
	curL       int
	nR         int
	fails      []Fail
	failKeys   map[string]bool
	step       int
	sdDone     bool
}

func (w *bootWorld) newTransport() *mock.Transport {
	t := mock.NewTransport(nil)
	w.mu.Lock()
	w.transports = append(w.transports, t)
	w.mu.Unlock()
	return t
}

func (w *bootWorld) fail(key, msg string) {
	if w.failKeys[key] {
		return
	}
	w.failKeys[key] = true
	w.fails = append(w.fails, Fail{Prop: "C13", Key: key, Msg: msg, Step: w.step})
}

var bootGated = map[string]bool{
	"l.sync": true, "l.listened": true, "l.serve": true, "l.close": true, "sd.cancel": true, "sd.range": true,
	"sd.closeall": true, "h.closeall": true, "h.close": true, "h.add": true, "b.connect": true, "r.check": true,
}

func (w *bootWorld) state() BootSt {
	st := BootSt{Bctx: w.bs.Context().Err() != nil, Acc: map[string]string{}, Lret: map[string]string{}, Ch: map[string]BootChSt{}}
	w.mu.Lock()
	defer w.mu.Unlock()
	for _, l := range w.c.Listeners {
		k := fmt.Sprint(l)
		st.Acc[k] = "none"
		for _, a := range w.acceptors[l] {
			a.mu.Lock()
			if a.closed {
				st.Acc[k] = "closed"
			} else {
				st.Acc[k] = "open"
			}
			a.mu.Unlock()
		}
		st.Lret[k] = "none"
		if r, ok := w.lret[l]; ok {
			st.Lret[k] = r
		}
	}
	for id, ch := range w.chans {
		var tc int
		if mt, ok := ch.Transport().(*mock.Transport); ok {
			_, _, tc = mt.Lens()
		}
		st.Ch[fmt.Sprint(id)] = BootChSt{Closed: !ch.IsActive(), TCloses: tc, Inactives: w.inactives[id]}
	}
	st.Incoming = w.incoming
	st.NCh = len(w.chans)
	return st
}

func runBootCase(c *BootCase) *BootResult {
	res := &BootResult{ID: c.ID, Fails: []Fail{}, Actions: map[string]int{}, Final: map[string]string{}}
	s := sched.New()
	w := &bootWorld{c: c, s: s, acceptors: map[int][]*bootAcceptor{}, chans: map[int64]netty.Channel{}, inactives: map[int64]int{},
		lret: map[int]string{}, listeners: map[int]netty.Listener{}, failKeys: map[string]bool{}}
	netty.VerifHook = func(obj interface{}, point string) {
		if bootGated[point] {
			s.Gate(obj, point)
		}
	}
	ex := mock.NewExecutor(s)
	ex.Name = func(caller string, n int) string {
		// Async is called by the main goroutine; read loops are started by whoever serves the channel
		if caller == "M" && w.curL > 0 {
			l := w.curL
			w.curL = 0
			return fmt.Sprintf("L%d", l)
		}
		w.nR++
		return fmt.Sprintf("R%d", w.nR)
	}
	init := func(ch netty.Channel) {
		w.mu.Lock()
		w.chans[ch.ID()] = ch
		w.mu.Unlock()
		ch.Pipeline().AddLast(bootProbe{w})
	}
	w.bs = netty.NewBootstrap(
		netty.WithTransport(&bootFactory{w}),
		netty.WithExecutor(ex),
		netty.WithChannel(netty.NewChannel()),
		netty.WithChildInitializer(init),
		netty.WithClientInitializer(init),
	)
	if len(c.Program) > 0 {
		s.Go("M", func() {
			for _, op := range c.Program {
				s.Gate(w, "m.op")
				switch op[0].(string) {
				case "listen":
					l := int(op[1].(float64))
					w.curL = l
					ls := w.bs.Listen(fmt.Sprintf("mock://l%d:1", l))
					w.mu.Lock()
					w.listeners[l] = ls
					w.mu.Unlock()
					ls.Async(func(err error) {
						r := "err"
						switch {
						case err == nil:
							r = "nil"
						case errors.Is(err, netty.ErrServerClosed):
							r = "closed"
						case strings.Contains(err.Error(), "duplicate call"):
							r = "dup"
						}
						w.mu.Lock()
						w.lret[l] = r
						w.mu.Unlock()
					})
				case "connect":
					if _, err := w.bs.Connect("mock://peer:1"); err != nil {
						w.fail("connect-error", "Connect failed: "+err.Error())
					}
				case "lclose":
					l := int(op[1].(float64))
					w.mu.Lock()
					ls := w.listeners[l]
					w.mu.Unlock()
					if ls != nil {
						ls.Close()
					}
				}
			}
		})
	}
	if c.Shutdown {
		s.Go("SD", func() { w.bs.Shutdown() })
	}
	if err := s.Settle(); err != nil {
		res.HarnessErr = err.Error()
		return res
	}
	maxSteps := c.MaxSteps
	if maxSteps == 0 {
		maxSteps = 300
	}
	var rnd *rand.Rand
	if c.Random != nil {
		rnd = rand.New(rand.NewSource(c.Random.Seed))
	}
	schedIdx := 0
	canIncoming := func() []int {
		var out []int
		if w.incoming >= c.MaxIncoming {
			return out
		}
		w.mu.Lock()
		defer w.mu.Unlock()
		for _, l := range c.Listeners {
			for _, a := range w.acceptors[l] {
				a.mu.Lock()
				if !a.closed {
					out = append(out, l)
				}
				a.mu.Unlock()
			}
		}
		sort.Ints(out)
		return out
	}
	for w.step = 0; w.step < maxSteps; w.step++ {
		atGate := s.AtGate()
		kind, proc := "", ""
		for schedIdx < len(c.Schedule) {
			e := c.Schedule[schedIdx]
			schedIdx++
			if e[0] == "incoming" {
				var l int
				fmt.Sscan(e[1], &l)
				ok := false
				for _, x := range canIncoming() {
					if x == l {
						ok = true
					}
				}
				if ok {
					kind, proc = "incoming", e[1]
					break
				}
				res.Diverged++
				continue
			}
			if contains(atGate, e[1]) {
				kind, proc = "step", e[1]
				break
			}
			res.Diverged++
		}
		if kind == "" {
			inc := canIncoming()
			if len(atGate) == 0 && (rnd == nil || len(inc) == 0) {
				break
			}
			if rnd != nil {
				if len(inc) > 0 && (len(atGate) == 0 || rnd.Intn(6) == 0) {
					kind, proc = "incoming", fmt.Sprint(inc[rnd.Intn(len(inc))])
				} else {
					kind, proc = "step", atGate[rnd.Intn(len(atGate))]
				}
			} else {
				kind, proc = "step", atGate[0]
			}
		}
		ev := BootEvent{P: proc}
		if kind == "incoming" {
			var l int
			fmt.Sscan(proc, &l)
			ev.A, ev.L, ev.P = "env.incoming", l, ""
			w.mu.Lock()
			as := w.acceptors[l]
			w.mu.Unlock()
			w.incoming++
			as[len(as)-1].push(w.newTransport())
			if err := s.Settle(); err != nil {
				res.HarnessErr = err.Error()
				break
			}
		} else {
			ev.A = s.Loc(proc)
			if err := s.Step(proc); err != nil {
				res.HarnessErr = err.Error()
				break
			}
		}
		res.Actions[ev.A]++
		res.Sched = append(res.Sched, []string{kind, proc, ev.A})
		ev.Pcs = w.pcs()
		ev.St = w.state()
		res.Events = append(res.Events, ev)
		// always-properties
		for id, st := range ev.St.Ch {
			if st.TCloses > 1 {
				w.fail("transport-closed-twice", fmt.Sprintf("channel %s: transport closed %d times", id, st.TCloses))
			}
			if st.Inactives > 1 {
				w.fail("inactive-twice", fmt.Sprintf("channel %s: inactive delivered %d times", id, st.Inactives))
			}
		}
	}
	res.Steps = w.step
	if res.HarnessErr == "" && w.step >= maxSteps {
		res.HarnessErr = fmt.Sprintf("step budget %d exhausted", maxSteps)
	}
	if res.HarnessErr == "" && c.Shutdown && s.Loc("SD") == "done" {
		w.oracle()
	}
	for k, v := range s.Locs() {
		res.Final[k] = v
	}
	res.Fails = append(res.Fails, w.fails...)
	// release whatever is still blocked
	s.SetFree()
	w.mu.Lock()
	for _, as := range w.acceptors {
		for _, a := range as {
			a.mu.Lock()
			if !a.closed {
				a.closed = true
				close(a.wake)
			}
			a.mu.Unlock()
		}
	}
	w.mu.Unlock()
	return res
}

func (w *bootWorld) pcs() map[string]string {
	out := map[string]string{"M": "none", "SD": "none"}
	for _, l := range w.c.Listeners {
		out[fmt.Sprintf("L%d", l)] = "none"
	}
	for k := 1; k <= w.c.MaxChans; k++ {
		out[fmt.Sprintf("R%d", k)] = "none"
	}
	for k, v := range w.s.Locs() {
		out[k] = v
	}
	return out
}

// oracle: Shutdown has returned and nothing can move any more
func (w *bootWorld) oracle() {
	st := w.state()
	if !st.Bctx {
		w.fail("context-not-cancelled", "bootstrap context not cancelled after Shutdown")
	}
	userClosed := map[int]bool{}
	for _, op := range w.c.Program {
		if op[0].(string) == "lclose" {
			userClosed[int(op[1].(float64))] = true
		}
	}
	for _, l := range w.c.Listeners {
		k := fmt.Sprint(l)
		loc := w.s.Loc(fmt.Sprintf("L%d", l))
		if st.Acc[k] == "open" {
			w.fail("acceptor-left-open", fmt.Sprintf("listener %d: its acceptor is still open after Shutdown returned and everything came to rest (accept loop: %s)", l, loc))
		}
		if loc == "parked" {
			w.fail("accept-loop-left", fmt.Sprintf("listener %d: its accept loop is still blocked after Shutdown", l))
		}
		if loc == "done" && !userClosed[l] && st.Lret[k] != "closed" && st.Lret[k] != "dup" {
			w.fail("accept-loop-result", fmt.Sprintf("listener %d: accept loop ended with %q instead of ErrServerClosed", l, st.Lret[k]))
		}
	}
	for id, c := range st.Ch {
		if !c.Closed || c.TCloses != 1 || c.Inactives != 1 {
			w.fail("channel-left-open", fmt.Sprintf("channel %s after Shutdown: closed=%v transport closes=%d inactive events=%d", id, c.Closed, c.TCloses, c.Inactives))
		}
	}
	for k := 1; k <= w.nR; k++ {
		if loc := w.s.Loc(fmt.Sprintf("R%d", k)); loc != "done" {
			w.fail("readloop-left", fmt.Sprintf("read loop of channel %d is %s after Shutdown", k, loc))
		}
	}
	if loc := w.s.Loc("M"); loc != "done" && loc != "none" {
		w.fail("caller-stuck", fmt.Sprintf("the goroutine calling Listen/Connect is %s after Shutdown", loc))
	}
}
