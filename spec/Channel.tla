------------------------------ MODULE Channel ------------------------------
(***************************************************************************)
(* go-netty channel.go: the protocol between writer goroutines, the        *)
(* background sender (writeOnce), closers (Close), the read loop and       *)
(* serveChannel, at the granularity of the code's own atomic steps.        *)
(*                                                                         *)
(* One action per gate: the label of an action is the name of the hook /   *)
(* mock-transport gate the goroutine is released from (pc[p]); the action  *)
(* is everything the goroutine does until it reaches its next gate,        *)
(* finishes or parks.  Routines (Close, writeOnce) are shared by all       *)
(* processes that may run them and return through stack[p].                *)
(***************************************************************************)
EXTENDS Integers, Sequences, FiniteSets, TLC, SequencesExt

CONSTANTS
    Writers,     \* set of writer process names, e.g. {"W1","W2"}
    Prog,        \* [Writers -> Seq(kind)], kind \in {"W1","Wv","CW1","CWv"}
    CtxOf,       \* [Writers -> Seq({"bg","dead","mortal"})] caller context per op
    NChunks,     \* [Writers -> Seq(Nat)] low-level writes an op consists of (1 except ReadFrom / multi-write messages)
    Closers,     \* set of closer process names, e.g. {"C1"}
    CloseArg,    \* [Closers -> {"nil","e1","e2","e3"}]
    SenderIds,   \* sequence of sender-incarnation names <<"S1","S2",...>>
    QSize,       \* 0 = synchronous channel, > 0 = queue capacity
    Until,       \* TRUE = blocking queue mode (untilWrite), FALSE = non-blocking
    MaxPolls,    \* bound of Close's poll loop when ~Until (10 in the code)
    MaxFaults,   \* how many transport faults the environment may inject
    Serve,       \* "full" = model serveChannel + read loop from the start; "pre" = channel already active, reader parked in Read
    Reads,       \* number of transport reads that succeed before the peer goes silent
    ReadCloses,  \* set of read numbers at which the inbound handler calls Close("h1") from inside the read loop
    TrackBufs,   \* TRUE = model packet buffers, pool recycling and other pool users (C10)
    CloneOnWrite,\* TRUE = the write entry points copy the caller's bytes into a pooled packet (as the code does)
    RecycleLate, \* TRUE = packet buffers go back to the pool only after Writev returned (as the code does)
    Swallow,     \* TRUE = the pipeline has an exception handler that consumes every exception
    PCancel,     \* TRUE = the environment may cancel the parent context (bootstrap shutdown) once
    FixClosed,   \* TRUE = entry points test the closed flag, close error never nil (C11 repair)
    FixDrain     \* TRUE = Close takes the sender role and drains (C06 repair)

VARIABLES
    pc, stack,           \* control state per process
    opi, chk, wret,      \* per writer: index of current op, current chunk of it, results so far
    queue, waitq,        \* write queue (payload ids), writers parked in select (FIFO)
    running, closed,     \* the two atomics
    closeErr, werr,      \* stored close error ("unset" before), error of the winning Close
    ctxDone, tclosed, tcloses,
    tlog, flushed,       \* ids handed to the transport, how many of them flushed
    batch,               \* per process: sender routine's batch
    nexts,               \* next sender incarnation index
    mutex, mwait,        \* sync-mode write lock holder ("free") and waiters
    polls, carg,         \* per process: Close poll counter, Close argument
    inactives, actives, reads, readsLeft, rinflight,
    faults, cancelled,
    \* history (observation only)
    acc, begun, before, returned, okset, accAtClose, closeRet, lateBegun, drainedOK, fatal,
    \* C10: packet buffers. pooled = chunks whose packet buffer is (back) in the pool; dirty = chunks whose
    \* bytes were overwritten (by the caller reusing its buffer, or by another pool user); corrupt = some
    \* overwritten chunk was handed to the transport
    pooled, dirty, corrupt

vars == <<pc, stack, opi, chk, wret, queue, waitq, running, closed, closeErr, werr,
          ctxDone, tclosed, tcloses, tlog, flushed, batch, nexts, mutex, mwait,
          polls, carg, inactives, actives, reads, readsLeft, rinflight, faults,
          cancelled, acc, begun, before, returned, okset, accAtClose, closeRet,
          lateBegun, drainedOK, fatal, pooled, dirty, corrupt>>

Senders  == {SenderIds[i] : i \in 1..Len(SenderIds)}
SrvProcs == {"V", "R"}
Procs    == Writers \cup Closers \cup Senders \cup SrvProcs

Ops      == {<<w, i>> : w \in Writers, i \in 1..4}
BatchCap == (QSize \div 2) + 1
Async    == QSize > 0

OpId(w)  == <<w, opi[w]>>                 \* the current call of writer w
Cur(w)   == <<w, opi[w], chk[w]>>         \* the payload (chunk) its current low-level write carries
OpOf(c)  == <<c[1], c[2]>>
LastChunk(w) == chk[w] >= NChunks[w][opi[w]]
ChunksOf(o) == {<<o[1], o[2], j>> : j \in 1..NChunks[o[1]][o[2]]}
MultiKinds == {"RF", "MR", "MT"}          \* ReadFrom, Write(io.Reader), Write(io.WriterTo)
Kind(w)  == Prog[w][opi[w]]
Ctx(w)   == CtxOf[w][opi[w]]
IsVec(k) == k \in {"Wv", "CWv", "MV"}
WGate(w) == IF IsVec(Kind(w)) THEN "t.writev" ELSE "t.write"

Pos(s, x) == CHOOSE i \in 1..Len(s) : s[i] = x

ParkedPcs == {"w.blocked", "m.wait", "r.blocked", "v.wait", "msg.wait"}

\* "M" = Channel.Write(message) with a []byte message: closed test, then the pipeline's head
\* handler calls Write1; an error of Write1 becomes an exception and Write still returns nil
\* "MX" = a message no handler converts: the head handler panics, the recover guard of the call turns the panic into an
\* exception event delivered on the caller's goroutine (gate "h.exc" inside the application's exception handler)
MsgKinds == {"M", "MV", "MR", "MT", "MX"}       \* calls of Channel.Write(message)
EntryPc(k) == IF k \in MsgKinds THEN "m.enter" ELSE IF k = "RF" THEN "rf.enter" ELSE "w.enter"

\* result of a write that lost against the channel context
CloseRes == IF FixClosed THEN "closed"
            ELSE IF closeErr \in {"nil", "unset"} THEN "zero" ELSE "closed"

-----------------------------------------------------------------------------
\* the initial value of every variable (one source for Init and the trace Reset)
I0 == [
    pc |-> [p \in Procs |->
               IF p \in Writers THEN (IF Len(Prog[p]) > 0 THEN EntryPc(Prog[p][1]) ELSE "done")
               ELSE IF p \in Closers THEN "c.cas"
               ELSE IF p = "V" THEN (IF Serve = "full" THEN "v.start" ELSE "done")
               ELSE IF p = "R" THEN (IF Serve = "full" THEN "none" ELSE "r.blocked")
               ELSE "none"],
    stack |-> [p \in Procs |-> <<>>],
    opi |-> [w \in Writers |-> 1],
    chk |-> [w \in Writers |-> 1],
    wret |-> [w \in Writers |-> <<>>],
    batch |-> [p \in Procs |-> <<>>],
    polls |-> [p \in Procs |-> 0],
    carg |-> [p \in Procs |-> IF p \in Closers THEN CloseArg[p] ELSE "unset"],
    actives |-> (IF Serve = "full" THEN 0 ELSE 1),
    rinflight |-> (IF Serve = "full" THEN 0 ELSE 1),
    before |-> [o \in Ops |-> {}] ]

Init ==
    /\ pc = I0.pc /\ stack = I0.stack /\ opi = I0.opi /\ chk = I0.chk /\ wret = I0.wret
    /\ queue = <<>> /\ waitq = <<>>
    /\ running = 0 /\ closed = 0
    /\ closeErr = "unset" /\ werr = "unset"
    /\ ctxDone = FALSE /\ tclosed = FALSE /\ tcloses = 0
    /\ tlog = <<>> /\ flushed = 0
    /\ batch = I0.batch
    /\ nexts = 1
    /\ mutex = "free" /\ mwait = {}
    /\ polls = I0.polls /\ carg = I0.carg
    /\ inactives = <<>> /\ actives = I0.actives /\ reads = 0 /\ readsLeft = Reads
    /\ rinflight = I0.rinflight
    /\ faults = MaxFaults
    /\ cancelled = {}
    /\ acc = <<>> /\ begun = {} /\ before = I0.before
    /\ returned = {} /\ okset = {} /\ accAtClose = {} /\ closeRet = FALSE
    /\ lateBegun = {} /\ drainedOK = TRUE /\ fatal = FALSE
    /\ pooled = {} /\ dirty = {} /\ corrupt = FALSE

\* the same, on the primed variables
Reset ==
    /\ pc' = I0.pc /\ stack' = I0.stack /\ opi' = I0.opi /\ chk' = I0.chk /\ wret' = I0.wret
    /\ queue' = <<>> /\ waitq' = <<>>
    /\ running' = 0 /\ closed' = 0
    /\ closeErr' = "unset" /\ werr' = "unset"
    /\ ctxDone' = FALSE /\ tclosed' = FALSE /\ tcloses' = 0
    /\ tlog' = <<>> /\ flushed' = 0
    /\ batch' = I0.batch
    /\ nexts' = 1
    /\ mutex' = "free" /\ mwait' = {}
    /\ polls' = I0.polls /\ carg' = I0.carg
    /\ inactives' = <<>> /\ actives' = I0.actives /\ reads' = 0 /\ readsLeft' = Reads
    /\ rinflight' = I0.rinflight
    /\ faults' = MaxFaults
    /\ cancelled' = {}
    /\ acc' = <<>> /\ begun' = {} /\ before' = I0.before
    /\ returned' = {} /\ okset' = {} /\ accAtClose' = {} /\ closeRet' = FALSE
    /\ lateBegun' = {} /\ drainedOK' = TRUE /\ fatal' = FALSE
    /\ pooled' = {} /\ dirty' = {} /\ corrupt' = FALSE

-----------------------------------------------------------------------------
(* Helpers: a set of writers finishing their current op in one step.  fin is *)
(* a function from a set of writers to results.                              *)

NextWPc(w) == IF opi[w] < Len(Prog[w]) THEN EntryPc(Prog[w][opi[w] + 1]) ELSE "done"

\* what the caller of op w sees when the low-level write produced r
Seen(w, r) == IF Kind(w) \in MsgKinds /\ pc[w] \notin {"m.enter", "msg.wait"} /\ r # "ok" THEN "mexc" ELSE r

\* new pc function after: process p moves to np, writers in DOMAIN fin finish,
\* extra is a function of additional pc overrides
PcAfter(over) == [q \in Procs |-> IF q \in DOMAIN over THEN over[q] ELSE pc[q]]

FinishAll(fin) ==
    /\ wret' = [w \in Writers |-> IF w \in DOMAIN fin THEN Append(wret[w], Seen(w, fin[w])) ELSE wret[w]]
    /\ opi' = [w \in Writers |-> IF w \in DOMAIN fin THEN opi[w] + 1 ELSE opi[w]]
    /\ chk' = [w \in Writers |-> IF w \in DOMAIN fin THEN 1 ELSE chk[w]]
    /\ returned' = returned \cup {OpId(w) : w \in DOMAIN fin}
    /\ okset' = okset \cup {OpId(w) : w \in {x \in DOMAIN fin : fin[x] = "ok"}}

NoFinish == UNCHANGED <<wret, opi, chk, returned, okset>>

FinPcs(fin) == [w \in DOMAIN fin |-> NextWPc(w)]

\* merge of two functions with disjoint domains (left wins)
Merge(f, g) == [x \in (DOMAIN f) \cup (DOMAIN g) |-> IF x \in DOMAIN f THEN f[x] ELSE g[x]]

One(k, v) == [x \in {k} |-> v]
Empty == [x \in {} |-> "x"]

\* the low-level write of w's current chunk succeeded: next chunk, or the call returns ok
ChunkDone(w, overPc) ==
    IF LastChunk(w)
    THEN /\ FinishAll(One(w, "ok")) /\ pc' = PcAfter(Merge(One(w, NextWPc(w)), overPc))
    ELSE /\ chk' = [chk EXCEPT ![w] = @ + 1]
         /\ UNCHANGED <<wret, opi, returned, okset>>
         /\ pc' = PcAfter(Merge(One(w, "w.enter"), overPc))


\* routine return: pop the continuation
RetPc(p) == IF stack[p] = <<>> THEN "done" ELSE Head(stack[p])
RetStack(p) == IF stack[p] = <<>> THEN stack ELSE [stack EXCEPT ![p] = Tail(@)]

\* release of the sync-mode write lock by w: hand-off to some waiter, if any
Unlock(w, overPc) ==
    IF mwait = {}
    THEN /\ mutex' = "free" /\ mwait' = mwait
         /\ pc' = PcAfter(overPc)
    ELSE \E x \in mwait :
         /\ mutex' = x /\ mwait' = mwait \ {x}
         /\ pc' = PcAfter(Merge(overPc, One(x, WGate(x))))

-----------------------------------------------------------------------------
(* Writers                                                                   *)

\* Channel.Write(message): closed test first; on a closed channel it waits for the channel
\* context and returns the stored close error
MEnter(w) ==
    /\ pc[w] = "m.enter"
    /\ begun' = begun \cup {OpId(w)}
    /\ before' = [before EXCEPT ![OpId(w)] = returned]
    /\ lateBegun' = IF closeRet THEN lateBegun \cup {OpId(w)} ELSE lateBegun
    /\ UNCHANGED <<stack, queue, waitq, running, closed, closeErr, werr, ctxDone, tclosed,
                   tcloses, tlog, flushed, batch, nexts, polls, carg, inactives, actives,
                   reads, readsLeft, rinflight, faults, cancelled, acc, accAtClose, closeRet, drainedOK,
                   mutex, mwait, fatal, pooled, dirty, corrupt>>
    /\ IF closed = 0
       THEN /\ NoFinish /\ pc' = PcAfter(One(w, IF Kind(w) = "MR" THEN "rf.enter" ELSE IF Kind(w) = "MX" THEN "h.exc" ELSE "w.enter"))
       ELSE IF ctxDone
            THEN /\ FinishAll(One(w, CloseRes)) /\ pc' = PcAfter(One(w, NextWPc(w)))
            ELSE /\ NoFinish /\ pc' = PcAfter(One(w, "msg.wait"))

\* the application's exception handler returns (it consumed the exception): Channel.Write returns nil, the call
\* failed with an exception, nothing else happened to the channel - whatever other goroutines did meanwhile
HExc(w) ==
    /\ pc[w] = "h.exc"
    /\ FinishAll(One(w, "mexc"))
    /\ pc' = PcAfter(One(w, NextWPc(w)))
    /\ UNCHANGED <<stack, queue, waitq, running, closed, closeErr, werr, ctxDone, tclosed,
                   tcloses, tlog, flushed, batch, nexts, polls, carg, inactives, actives,
                   reads, readsLeft, rinflight, faults, cancelled, acc, begun, before, accAtClose, closeRet,
                   lateBegun, drainedOK, mutex, mwait, fatal, pooled, dirty, corrupt>>

\* ReadFrom: its own closed test before the first chunk is read
RFEnter(w) ==
    /\ pc[w] = "rf.enter"
    /\ IF Kind(w) = "RF"
       THEN /\ begun' = begun \cup {OpId(w)}
            /\ before' = [before EXCEPT ![OpId(w)] = returned]
            /\ lateBegun' = IF closeRet THEN lateBegun \cup {OpId(w)} ELSE lateBegun
       ELSE UNCHANGED <<begun, before, lateBegun>>
    /\ UNCHANGED <<stack, queue, waitq, running, closed, closeErr, werr, ctxDone, tclosed,
                   tcloses, tlog, flushed, batch, nexts, polls, carg, inactives, actives,
                   reads, readsLeft, rinflight, faults, cancelled, acc, accAtClose, closeRet, drainedOK,
                   mutex, mwait, fatal, pooled, dirty, corrupt>>
    /\ IF \/ FixClosed /\ closed = 1
          \/ ~FixClosed /\ closeErr \notin {"unset", "nil"}
       THEN /\ FinishAll(One(w, "closed")) /\ pc' = PcAfter(One(w, NextWPc(w)))
       ELSE /\ NoFinish /\ pc' = PcAfter(One(w, "w.enter"))

WEnter(w) ==
    /\ pc[w] = "w.enter"
    /\ IF Kind(w) \in MsgKinds \/ Kind(w) = "RF" \/ chk[w] > 1
       THEN UNCHANGED <<begun, before, lateBegun>>
       ELSE /\ begun' = begun \cup {OpId(w)}
            /\ before' = [before EXCEPT ![OpId(w)] = returned]
            /\ lateBegun' = IF closeRet THEN lateBegun \cup {OpId(w)} ELSE lateBegun
    /\ UNCHANGED <<stack, queue, waitq, running, closed, closeErr, werr, ctxDone, tclosed,
                   tcloses, tlog, flushed, batch, nexts, polls, carg, inactives, actives,
                   reads, readsLeft, rinflight, faults, cancelled, acc, accAtClose, closeRet, drainedOK, fatal, pooled, dirty, corrupt>>
    /\ IF \/ FixClosed /\ closed = 1
          \/ ~FixClosed /\ Kind(w) \in {"W1", "Wv", "M", "MV", "RF", "MR", "MT"} /\ closeErr \notin {"unset", "nil"}
       THEN /\ FinishAll(One(w, "closed"))
            /\ pc' = PcAfter(One(w, NextWPc(w)))
            /\ UNCHANGED <<mutex, mwait>>
       ELSE /\ NoFinish
            /\ IF Async
               THEN /\ pc' = PcAfter(One(w, "w.select"))
                    /\ UNCHANGED <<mutex, mwait>>
               ELSE IF mutex = "free"
                    THEN /\ mutex' = w /\ UNCHANGED mwait
                         /\ pc' = PcAfter(One(w, WGate(w)))
                    ELSE /\ mwait' = mwait \cup {w} /\ UNCHANGED mutex
                         /\ pc' = PcAfter(One(w, "m.wait"))

CallerDone(w) == Ctx(w) = "dead" \/ (Ctx(w) = "mortal" /\ w \in cancelled)

\* a caller context whose Done() is itself a gate ("gated"): the select statement first evaluates
\* ctx.Done() - the goroutine can be held there, between the hook before the select and the select's
\* atomic choice
WCtxDone(w) ==
    /\ pc[w] = "w.select" /\ Ctx(w) = "gated"
    /\ pc' = PcAfter(One(w, "w.ctxdone"))
    /\ NoFinish
    /\ UNCHANGED <<stack, queue, waitq, running, closed, closeErr, werr, ctxDone, tclosed, tcloses, tlog,
                   flushed, batch, nexts, mutex, mwait, polls, carg, inactives, actives, reads,
                   readsLeft, rinflight, faults, cancelled, acc, begun, before, accAtClose, closeRet,
                   lateBegun, drainedOK, fatal, pooled, dirty, corrupt>>

WSelect(w) ==
    /\ \/ pc[w] = "w.select" /\ Ctx(w) # "gated"
       \/ pc[w] = "w.ctxdone"
    /\ UNCHANGED <<stack, running, closed, closeErr, werr, ctxDone, tclosed, tcloses, tlog,
                   flushed, batch, nexts, mutex, mwait, polls, carg, inactives, actives,
                   reads, readsLeft, rinflight, faults, cancelled, begun, before, accAtClose,
                   closeRet, lateBegun, drainedOK, fatal, pooled, dirty, corrupt>>
    /\ \/ /\ CallerDone(w)
          /\ FinishAll(One(w, "ctx")) /\ pc' = PcAfter(One(w, NextWPc(w)))
          /\ UNCHANGED <<queue, waitq, acc>>
       \/ /\ ctxDone
          /\ FinishAll(One(w, CloseRes)) /\ pc' = PcAfter(One(w, NextWPc(w)))
          /\ UNCHANGED <<queue, waitq, acc>>
       \/ /\ Len(queue) < QSize
          /\ queue' = Append(queue, Cur(w)) /\ acc' = Append(acc, Cur(w))
          /\ pc' = PcAfter(One(w, "w.cas"))
          /\ NoFinish /\ UNCHANGED waitq
       \/ /\ ~CallerDone(w) /\ ~ctxDone /\ Len(queue) >= QSize
          /\ UNCHANGED <<queue, acc>>
          /\ IF Until
             THEN /\ waitq' = Append(waitq, w) /\ pc' = PcAfter(One(w, "w.blocked")) /\ NoFinish
             ELSE /\ FinishAll(One(w, "nospace")) /\ pc' = PcAfter(One(w, NextWPc(w)))
                  /\ UNCHANGED waitq

WCas(w) ==
    /\ pc[w] = "w.cas"
    /\ UNCHANGED <<stack, queue, waitq, closed, closeErr, werr, ctxDone, tclosed, tcloses, tlog,
                   flushed, batch, mutex, mwait, polls, carg, inactives, actives, reads,
                   readsLeft, rinflight, faults, cancelled, acc, begun, before, accAtClose,
                   closeRet, lateBegun, drainedOK, fatal, pooled, dirty, corrupt>>
    /\ IF running = 0
       THEN /\ nexts <= Len(SenderIds)
            /\ running' = 1 /\ nexts' = nexts + 1
            /\ ChunkDone(w, One(SenderIds[nexts], "x.start"))
       ELSE /\ UNCHANGED <<running, nexts>>
            /\ ChunkDone(w, Empty)

\* synchronous path: the transport call under the write lock
TWrite(w) ==
    /\ w \in Writers /\ pc[w] \in {"t.write", "t.writev"}
    /\ UNCHANGED <<stack, queue, waitq, running, closed, closeErr, werr, ctxDone, tclosed, tcloses,
                   flushed, batch, nexts, polls, carg, inactives, actives, reads, readsLeft,
                   rinflight, faults, cancelled, begun, before, accAtClose, closeRet, lateBegun, drainedOK, fatal, pooled, dirty, corrupt>>
    /\ IF tclosed
       THEN /\ FinishAll(One(w, "terr")) /\ UNCHANGED <<tlog, acc>>
            /\ Unlock(w, One(w, NextWPc(w)))
       ELSE /\ tlog' = Append(tlog, Cur(w)) /\ acc' = Append(acc, Cur(w))
            /\ NoFinish /\ UNCHANGED <<mutex, mwait>>
            /\ pc' = PcAfter(One(w, "t.flush"))

TWriteFail(w) ==
    /\ w \in Writers /\ pc[w] \in {"t.write", "t.writev"} /\ faults > 0 /\ ~tclosed
    /\ faults' = faults - 1
    /\ FinishAll(One(w, "terr"))
    /\ Unlock(w, One(w, NextWPc(w)))
    /\ UNCHANGED <<stack, queue, waitq, running, closed, closeErr, werr, ctxDone, tclosed, tcloses,
                   tlog, flushed, batch, nexts, polls, carg, inactives, actives, reads, readsLeft,
                   rinflight, cancelled, acc, begun, before, accAtClose, closeRet, lateBegun, drainedOK, fatal, pooled, dirty, corrupt>>

TWFlush(w) ==
    /\ w \in Writers /\ pc[w] = "t.flush"
    /\ UNCHANGED <<stack, queue, waitq, running, closed, closeErr, werr, ctxDone, tclosed, tcloses,
                   tlog, batch, nexts, polls, carg, inactives, actives, reads, readsLeft,
                   rinflight, faults, cancelled, acc, begun, before, accAtClose, closeRet, lateBegun, drainedOK, fatal, pooled, dirty, corrupt>>
    /\ IF tclosed /\ flushed < Len(tlog)
       THEN /\ FinishAll(One(w, "terr")) /\ UNCHANGED flushed
            /\ Unlock(w, One(w, NextWPc(w)))
       ELSE /\ flushed' = Len(tlog)
            /\ IF LastChunk(w)
               THEN /\ FinishAll(One(w, "ok")) /\ Unlock(w, One(w, NextWPc(w)))
               ELSE /\ chk' = [chk EXCEPT ![w] = @ + 1]
                    /\ UNCHANGED <<wret, opi, returned, okset>>
                    /\ Unlock(w, One(w, "w.enter"))

TWFlushFail(w) ==
    /\ w \in Writers /\ pc[w] = "t.flush" /\ faults > 0 /\ ~tclosed
    /\ faults' = faults - 1
    /\ FinishAll(One(w, "terr"))
    /\ Unlock(w, One(w, NextWPc(w)))
    /\ UNCHANGED <<stack, queue, waitq, running, closed, closeErr, werr, ctxDone, tclosed, tcloses,
                   tlog, flushed, batch, nexts, polls, carg, inactives, actives, reads, readsLeft,
                   rinflight, cancelled, acc, begun, before, accAtClose, closeRet, lateBegun, drainedOK, fatal, pooled, dirty, corrupt>>

\* environment: a caller context of writer w expires
CtxCancel(w) ==
    /\ w \in Writers /\ w \notin cancelled
    /\ \E i \in 1..Len(CtxOf[w]) : CtxOf[w][i] = "mortal"
    /\ cancelled' = cancelled \cup {w}
    /\ UNCHANGED <<stack, queue, running, closed, closeErr, werr, ctxDone, tclosed, tcloses, tlog,
                   flushed, batch, nexts, mutex, mwait, polls, carg, inactives, actives, reads,
                   readsLeft, rinflight, faults, acc, begun, before, accAtClose, closeRet, lateBegun, drainedOK, fatal, pooled, dirty, corrupt>>
    /\ IF pc[w] = "w.blocked" /\ Ctx(w) = "mortal"
       THEN /\ waitq' = SelectSeq(waitq, LAMBDA x : x # w)
            /\ FinishAll(One(w, "ctx")) /\ pc' = PcAfter(One(w, NextWPc(w)))
       ELSE /\ UNCHANGED <<waitq, pc>> /\ NoFinish

\* environment: the parent of the channel context is cancelled (Bootstrap.Shutdown, listener or
\* user context) without any Close call: waiting writers return, the read loop notices at its next check
ParentCancel ==
    /\ PCancel /\ ~ctxDone
    /\ ctxDone' = TRUE
    /\ LET ws == Range(waitq) \cup {w \in Writers : pc[w] = "msg.wait"}
           fin == [w \in ws |-> CloseRes]
       IN /\ FinishAll(fin)
          /\ pc' = PcAfter(FinPcs(fin))
    /\ waitq' = <<>>
    /\ UNCHANGED <<stack, queue, running, closed, closeErr, werr, tclosed, tcloses, tlog,
                   flushed, batch, nexts, mutex, mwait, polls, carg, inactives, actives, reads,
                   readsLeft, rinflight, faults, cancelled, acc, begun, before, accAtClose, closeRet,
                   lateBegun, drainedOK, fatal, pooled, dirty, corrupt>>

\* environment (C10): another user of the buffer pool obtains whatever is pooled and overwrites it
PoolUser ==
    /\ TrackBufs /\ ~(pooled \subseteq dirty)
    /\ dirty' = dirty \cup pooled
    /\ NoFinish
    /\ UNCHANGED <<pc, stack, queue, waitq, running, closed, closeErr, werr, ctxDone, tclosed, tcloses, tlog,
                   flushed, batch, nexts, mutex, mwait, polls, carg, inactives, actives, reads,
                   readsLeft, rinflight, faults, cancelled, acc, begun, before, accAtClose, closeRet,
                   lateBegun, drainedOK, fatal, pooled, corrupt>>

PoolUserAny ==
    /\ TrackBufs
    /\ dirty' = dirty \cup pooled
    /\ NoFinish
    /\ UNCHANGED <<pc, stack, queue, waitq, running, closed, closeErr, werr, ctxDone, tclosed, tcloses, tlog,
                   flushed, batch, nexts, mutex, mwait, polls, carg, inactives, actives, reads,
                   readsLeft, rinflight, faults, cancelled, acc, begun, before, accAtClose, closeRet,
                   lateBegun, drainedOK, fatal, pooled, corrupt>>

\* environment (C10): writer w reuses the buffers of its calls that have returned; the packets in the
\* queue are private copies unless the entry points do not clone
Scribble(w) ==
    /\ TrackBufs /\ ~CloneOnWrite /\ w \in Writers
    /\ LET mine == UNION {ChunksOf(o) : o \in {x \in returned : x[1] = w}} IN
       /\ ~(mine \subseteq dirty)
       /\ dirty' = dirty \cup mine
    /\ NoFinish
    /\ UNCHANGED <<pc, stack, queue, waitq, running, closed, closeErr, werr, ctxDone, tclosed, tcloses, tlog,
                   flushed, batch, nexts, mutex, mwait, polls, carg, inactives, actives, reads,
                   readsLeft, rinflight, faults, cancelled, acc, begun, before, accAtClose, closeRet,
                   lateBegun, drainedOK, fatal, pooled, corrupt>>

-----------------------------------------------------------------------------
(* The sender routine (writeOnce), run by sender incarnations and - with     *)
(* FixDrain - by the closing process.                                        *)

SenderLike(p) == p \notin Writers

XStart(p) ==
    /\ pc[p] = "x.start"
    /\ pc' = PcAfter(One(p, IF p = "R" THEN "r.active" ELSE "s.poll"))
    /\ batch' = [batch EXCEPT ![p] = <<>>]
    /\ NoFinish
    /\ UNCHANGED <<stack, queue, waitq, running, closed, closeErr, werr, ctxDone, tclosed, tcloses,
                   tlog, flushed, nexts, mutex, mwait, polls, carg, inactives, actives, reads,
                   readsLeft, rinflight, faults, cancelled, acc, begun, before, accAtClose, closeRet,
                   lateBegun, drainedOK, fatal, pooled, dirty, corrupt>>

SPoll(p) ==
    /\ pc[p] = "s.poll"
    /\ NoFinish
    /\ UNCHANGED <<stack, running, closed, closeErr, werr, ctxDone, tclosed, tcloses, tlog, flushed,
                   nexts, mutex, mwait, polls, carg, inactives, actives, reads, readsLeft, rinflight,
                   faults, cancelled, begun, before, accAtClose, closeRet, lateBegun, drainedOK, fatal, dirty, corrupt>>
    /\ pooled' = IF TrackBufs /\ ~RecycleLate /\ queue # <<>> THEN pooled \cup {Head(queue)} ELSE pooled
    /\ IF queue # <<>>
       THEN LET nb == Append(batch[p], Head(queue))
                np == IF Len(nb) < BatchCap THEN "s.poll" ELSE "t.writev"
            IN /\ batch' = [batch EXCEPT ![p] = nb]
               /\ IF waitq # <<>>
                  THEN LET x == Head(waitq) IN
                       /\ queue' = Append(Tail(queue), Cur(x))
                       /\ acc' = Append(acc, Cur(x))
                       /\ waitq' = Tail(waitq)
                       /\ pc' = PcAfter(Merge(One(p, np), One(x, "w.cas")))
                  ELSE /\ queue' = Tail(queue) /\ UNCHANGED <<waitq, acc>>
                       /\ pc' = PcAfter(One(p, np))
       ELSE /\ UNCHANGED <<queue, waitq, acc, batch>>
            /\ pc' = PcAfter(One(p, IF batch[p] # <<>> THEN "t.writev" ELSE "t.flush"))

TWritev(p) ==
    /\ SenderLike(p) /\ pc[p] = "t.writev"
    /\ NoFinish
    /\ batch' = [batch EXCEPT ![p] = <<>>]
    /\ UNCHANGED <<stack, queue, waitq, running, closed, closeErr, werr, ctxDone, tclosed, tcloses,
                   flushed, nexts, mutex, mwait, polls, carg, inactives, actives, reads, readsLeft,
                   rinflight, faults, cancelled, acc, begun, before, accAtClose, closeRet, lateBegun, drainedOK, fatal, dirty>>
    /\ IF tclosed
       THEN /\ UNCHANGED <<tlog, pooled, corrupt>> /\ pc' = PcAfter(One(p, "s.fail"))
       ELSE /\ tlog' = tlog \o batch[p] /\ pc' = PcAfter(One(p, "s.len"))
            \* the bytes handed over are the packets' current bytes; afterwards the packets are recycled
            /\ corrupt' = (corrupt \/ (TrackBufs /\ Range(batch[p]) \cap dirty # {}))
            /\ pooled' = IF TrackBufs THEN pooled \cup Range(batch[p]) ELSE pooled

TWritevFail(p) ==
    /\ SenderLike(p) /\ pc[p] = "t.writev" /\ faults > 0 /\ ~tclosed
    /\ faults' = faults - 1
    /\ NoFinish
    /\ batch' = [batch EXCEPT ![p] = <<>>]
    /\ pc' = PcAfter(One(p, "s.fail"))
    /\ UNCHANGED <<stack, queue, waitq, running, closed, closeErr, werr, ctxDone, tclosed, tcloses,
                   tlog, flushed, nexts, mutex, mwait, polls, carg, inactives, actives, reads, readsLeft,
                   rinflight, cancelled, acc, begun, before, accAtClose, closeRet, lateBegun, drainedOK, pooled, dirty, corrupt>>
    /\ fatal' = (fatal \/ closed = 0)

SLen(p) ==
    /\ pc[p] = "s.len"
    /\ NoFinish
    /\ pc' = PcAfter(One(p, IF queue # <<>> THEN "s.poll" ELSE "t.flush"))
    /\ UNCHANGED <<stack, queue, waitq, running, closed, closeErr, werr, ctxDone, tclosed, tcloses,
                   tlog, flushed, batch, nexts, mutex, mwait, polls, carg, inactives, actives, reads,
                   readsLeft, rinflight, faults, cancelled, acc, begun, before, accAtClose, closeRet,
                   lateBegun, drainedOK, fatal, pooled, dirty, corrupt>>

TSFlush(p) ==
    /\ SenderLike(p) /\ pc[p] = "t.flush"
    /\ NoFinish
    /\ UNCHANGED <<stack, queue, waitq, running, closed, closeErr, werr, ctxDone, tclosed, tcloses,
                   tlog, batch, nexts, mutex, mwait, polls, carg, inactives, actives, reads, readsLeft,
                   rinflight, faults, cancelled, acc, begun, before, accAtClose, closeRet, lateBegun, drainedOK, fatal, pooled, dirty, corrupt>>
    /\ IF tclosed /\ flushed < Len(tlog)
       THEN /\ UNCHANGED flushed /\ pc' = PcAfter(One(p, "s.fail"))
       ELSE /\ flushed' = Len(tlog) /\ pc' = PcAfter(One(p, "s.release"))

TSFlushFail(p) ==
    /\ SenderLike(p) /\ pc[p] = "t.flush" /\ faults > 0 /\ ~tclosed
    /\ faults' = faults - 1
    /\ NoFinish
    /\ pc' = PcAfter(One(p, "s.fail"))
    /\ UNCHANGED <<stack, queue, waitq, running, closed, closeErr, werr, ctxDone, tclosed, tcloses,
                   tlog, flushed, batch, nexts, mutex, mwait, polls, carg, inactives, actives, reads,
                   readsLeft, rinflight, cancelled, acc, begun, before, accAtClose, closeRet, lateBegun, drainedOK, pooled, dirty, corrupt>>
    /\ fatal' = (fatal \/ closed = 0)

SRelease(p) ==
    /\ pc[p] = "s.release"
    /\ running' = 0
    /\ NoFinish
    /\ pc' = PcAfter(One(p, "s.recheck"))
    /\ UNCHANGED <<stack, queue, waitq, closed, closeErr, werr, ctxDone, tclosed, tcloses, tlog,
                   flushed, batch, nexts, mutex, mwait, polls, carg, inactives, actives, reads,
                   readsLeft, rinflight, faults, cancelled, acc, begun, before, accAtClose, closeRet,
                   lateBegun, drainedOK, fatal, pooled, dirty, corrupt>>

SRecheck(p) ==
    /\ pc[p] = "s.recheck"
    /\ NoFinish
    /\ IF queue # <<>>
       THEN /\ pc' = PcAfter(One(p, "s.recas")) /\ UNCHANGED stack
       ELSE /\ pc' = PcAfter(One(p, RetPc(p))) /\ stack' = RetStack(p)
    /\ UNCHANGED <<queue, waitq, running, closed, closeErr, werr, ctxDone, tclosed, tcloses, tlog,
                   flushed, batch, nexts, mutex, mwait, polls, carg, inactives, actives, reads,
                   readsLeft, rinflight, faults, cancelled, acc, begun, before, accAtClose, closeRet,
                   lateBegun, drainedOK, fatal, pooled, dirty, corrupt>>

SRecas(p) ==
    /\ pc[p] = "s.recas"
    /\ NoFinish
    /\ IF running = 0
       THEN /\ running' = 1 /\ pc' = PcAfter(One(p, "s.poll")) /\ UNCHANGED stack
       ELSE /\ UNCHANGED running /\ pc' = PcAfter(One(p, RetPc(p))) /\ stack' = RetStack(p)
    /\ UNCHANGED <<queue, waitq, closed, closeErr, werr, ctxDone, tclosed, tcloses, tlog,
                   flushed, batch, nexts, mutex, mwait, polls, carg, inactives, actives, reads,
                   readsLeft, rinflight, faults, cancelled, acc, begun, before, accAtClose, closeRet,
                   lateBegun, drainedOK, fatal, pooled, dirty, corrupt>>

\* recover path of writeOnce: release ownership, then Close(err) (tail call)
SFail(p) ==
    /\ pc[p] = "s.fail"
    /\ running' = 0
    /\ carg' = [carg EXCEPT ![p] = "werr"]
    /\ NoFinish
    /\ pc' = PcAfter(One(p, "c.cas"))
    /\ UNCHANGED <<stack, queue, waitq, closed, closeErr, werr, ctxDone, tclosed, tcloses, tlog,
                   flushed, batch, nexts, mutex, mwait, polls, inactives, actives, reads,
                   readsLeft, rinflight, faults, cancelled, acc, begun, before, accAtClose, closeRet,
                   lateBegun, drainedOK, fatal, pooled, dirty, corrupt>>

-----------------------------------------------------------------------------
(* Close                                                                     *)

CCas(p) ==
    /\ pc[p] = "c.cas"
    /\ NoFinish
    /\ UNCHANGED <<queue, waitq, running, closeErr, ctxDone, tclosed, tcloses, tlog, flushed, batch,
                   nexts, mutex, mwait, carg, inactives, actives, reads, readsLeft, rinflight, faults,
                   cancelled, acc, begun, before, lateBegun, drainedOK, fatal, pooled, dirty, corrupt>>
    /\ IF closed = 0
       THEN /\ closed' = 1 /\ werr' = carg[p] /\ accAtClose' = okset
            /\ polls' = [polls EXCEPT ![p] = 0]
            /\ pc' = PcAfter(One(p, IF Async THEN "c.poll" ELSE "c.seterr"))
            /\ UNCHANGED <<stack, closeRet>>
       ELSE /\ UNCHANGED <<closed, werr, accAtClose, polls>>
            /\ closeRet' = TRUE
            /\ pc' = PcAfter(One(p, RetPc(p))) /\ stack' = RetStack(p)

CPoll(p) ==
    /\ pc[p] = "c.poll"
    /\ NoFinish
    /\ UNCHANGED <<queue, waitq, closed, closeErr, werr, ctxDone, tclosed, tcloses, tlog, flushed,
                   nexts, mutex, mwait, carg, inactives, actives, reads, readsLeft, rinflight, faults,
                   cancelled, acc, begun, before, accAtClose, closeRet, lateBegun, fatal, pooled, dirty, corrupt>>
    /\ IF FixDrain
       THEN IF running = 0
            THEN /\ running' = 1
                 /\ stack' = [stack EXCEPT ![p] = <<"c.seterr">> \o @]
                 /\ batch' = [batch EXCEPT ![p] = <<>>]
                 /\ pc' = PcAfter(One(p, "s.poll"))
                 /\ UNCHANGED <<polls, drainedOK>>
            ELSE IF Until \/ polls[p] < MaxPolls
                 THEN /\ polls' = [polls EXCEPT ![p] = IF Until THEN 0 ELSE @ + 1]
                      /\ UNCHANGED <<running, stack, batch, pc, drainedOK>>
                 ELSE /\ pc' = PcAfter(One(p, "c.seterr")) /\ drainedOK' = FALSE
                      /\ UNCHANGED <<running, stack, batch, polls>>
       ELSE IF (Until \/ polls[p] < MaxPolls) /\ running # 0
            THEN /\ polls' = [polls EXCEPT ![p] = IF Until THEN 0 ELSE @ + 1]
                 /\ UNCHANGED <<running, stack, batch, pc, drainedOK>>
            ELSE /\ pc' = PcAfter(One(p, "c.seterr"))
                 /\ drainedOK' = (running = 0)
                 /\ UNCHANGED <<running, stack, batch, polls>>

CSetErr(p) ==
    /\ pc[p] = "c.seterr"
    /\ closeErr' = werr
    /\ NoFinish
    /\ pc' = PcAfter(One(p, "t.close"))
    /\ UNCHANGED <<stack, queue, waitq, running, closed, werr, ctxDone, tclosed, tcloses, tlog,
                   flushed, batch, nexts, mutex, mwait, polls, carg, inactives, actives, reads,
                   readsLeft, rinflight, faults, cancelled, acc, begun, before, accAtClose, closeRet,
                   lateBegun, drainedOK, fatal, pooled, dirty, corrupt>>

\* transport.Close: a reader blocked in Read fails; channel already closed => mute
TClose(p) ==
    /\ pc[p] = "t.close"
    /\ tclosed' = TRUE /\ tcloses' = tcloses + 1
    /\ NoFinish
    /\ pc' = PcAfter(IF pc["R"] = "r.blocked"
                     THEN Merge(One(p, "c.cancel"), One("R", "r.check"))
                     ELSE One(p, "c.cancel"))
    /\ rinflight' = IF pc["R"] = "r.blocked" THEN 0 ELSE rinflight
    /\ UNCHANGED <<stack, queue, waitq, running, closed, closeErr, werr, ctxDone, tlog,
                   flushed, batch, nexts, mutex, mwait, polls, carg, inactives, actives, reads,
                   readsLeft, faults, cancelled, acc, begun, before, accAtClose, closeRet,
                   lateBegun, drainedOK, fatal, pooled, dirty, corrupt>>

\* cancel the channel context: every writer parked in select returns
CCancel(p) ==
    /\ pc[p] = "c.cancel"
    /\ ctxDone' = TRUE
    /\ LET ws == Range(waitq) \cup {w \in Writers : pc[w] = "msg.wait"}
           fin == [w \in ws |-> CloseRes]
       IN /\ FinishAll(fin)
          /\ pc' = PcAfter(Merge(One(p, "c.inactive"), FinPcs(fin)))
    /\ waitq' = <<>>
    /\ UNCHANGED <<stack, queue, running, closed, closeErr, werr, tclosed, tcloses, tlog,
                   flushed, batch, nexts, mutex, mwait, polls, carg, inactives, actives, reads,
                   readsLeft, rinflight, faults, cancelled, acc, begun, before, accAtClose, closeRet,
                   lateBegun, drainedOK, fatal, pooled, dirty, corrupt>>

CInactive(p) ==
    /\ pc[p] = "c.inactive"
    /\ inactives' = Append(inactives, werr)
    /\ closeRet' = TRUE
    /\ NoFinish
    /\ pc' = PcAfter(One(p, RetPc(p))) /\ stack' = RetStack(p)
    /\ UNCHANGED <<queue, waitq, running, closed, closeErr, werr, ctxDone, tclosed, tcloses, tlog,
                   flushed, batch, nexts, mutex, mwait, polls, carg, actives, reads,
                   readsLeft, rinflight, faults, cancelled, acc, begun, before, accAtClose,
                   lateBegun, drainedOK, fatal, pooled, dirty, corrupt>>

-----------------------------------------------------------------------------
(* serveChannel and the read loop                                            *)

VStart ==
    /\ pc["V"] = "v.start"
    /\ pc' = PcAfter(Merge(One("V", "v.wait"), One("R", "x.start")))
    /\ NoFinish
    /\ UNCHANGED <<stack, queue, waitq, running, closed, closeErr, werr, ctxDone, tclosed, tcloses,
                   tlog, flushed, batch, nexts, mutex, mwait, polls, carg, inactives, actives, reads,
                   readsLeft, rinflight, faults, cancelled, acc, begun, before, accAtClose, closeRet,
                   lateBegun, drainedOK, fatal, pooled, dirty, corrupt>>

RActive ==
    /\ pc["R"] = "r.active"
    /\ actives' = actives + 1
    /\ pc' = PcAfter(IF pc["V"] = "v.wait"
                     THEN Merge(One("R", "r.check"), One("V", "done"))
                     ELSE One("R", "r.check"))
    /\ NoFinish
    /\ UNCHANGED <<stack, queue, waitq, running, closed, closeErr, werr, ctxDone, tclosed, tcloses,
                   tlog, flushed, batch, nexts, mutex, mwait, polls, carg, inactives, reads,
                   readsLeft, rinflight, faults, cancelled, acc, begun, before, accAtClose, closeRet,
                   lateBegun, drainedOK, fatal, pooled, dirty, corrupt>>

RCheck ==
    /\ pc["R"] = "r.check"
    /\ NoFinish
    /\ IF ctxDone
       THEN /\ carg' = [carg EXCEPT !["R"] = "nil"]
            /\ pc' = PcAfter(One("R", "c.cas"))
       ELSE /\ UNCHANGED carg
            /\ pc' = PcAfter(One("R", "t.read"))
    /\ UNCHANGED <<stack, queue, waitq, running, closed, closeErr, werr, ctxDone, tclosed, tcloses,
                   tlog, flushed, batch, nexts, mutex, mwait, polls, inactives, actives, reads,
                   readsLeft, rinflight, faults, cancelled, acc, begun, before, accAtClose, closeRet,
                   lateBegun, drainedOK, fatal, pooled, dirty, corrupt>>

TRead ==
    /\ pc["R"] = "t.read"
    /\ NoFinish
    /\ LET closing == ~tclosed /\ readsLeft > 0 /\ (reads + 1) \in ReadCloses IN
       /\ stack' = IF closing THEN [stack EXCEPT !["R"] = <<"r.check">> \o @] ELSE stack
       /\ carg' = IF closing THEN [carg EXCEPT !["R"] = "h1"] ELSE carg
    /\ UNCHANGED <<queue, waitq, running, closed, closeErr, werr, ctxDone, tclosed, tcloses,
                   tlog, flushed, batch, nexts, mutex, mwait, polls, inactives, actives,
                   faults, cancelled, acc, begun, before, accAtClose, closeRet, lateBegun, drainedOK, fatal, pooled, dirty, corrupt>>
    /\ IF tclosed
       THEN /\ pc' = PcAfter(One("R", "r.check")) /\ UNCHANGED <<reads, readsLeft, rinflight>>
       ELSE IF readsLeft > 0
            THEN /\ readsLeft' = readsLeft - 1 /\ reads' = reads + 1 /\ UNCHANGED rinflight
                 \* the handler that received the message may close the channel itself (Close from a handler)
                 /\ pc' = PcAfter(One("R", IF (reads + 1) \in ReadCloses THEN "c.cas" ELSE "r.check"))
            ELSE /\ pc' = PcAfter(One("R", "r.blocked")) /\ rinflight' = 1
                 /\ UNCHANGED <<reads, readsLeft>>

\* the transport read fails (peer reset): exception -> tail handler -> Close(rerr)
TReadFail ==
    /\ pc["R"] = "t.read" /\ faults > 0 /\ ~tclosed
    /\ faults' = faults - 1
    /\ NoFinish
    /\ IF closed = 0 /\ ~Swallow
       THEN /\ carg' = [carg EXCEPT !["R"] = "rerr"]
            /\ stack' = [stack EXCEPT !["R"] = <<"r.check">> \o @]
            /\ pc' = PcAfter(One("R", "c.cas"))
       ELSE /\ UNCHANGED <<carg, stack>>
            /\ pc' = PcAfter(One("R", "r.check"))
    /\ UNCHANGED <<queue, waitq, running, closed, closeErr, werr, ctxDone, tclosed, tcloses,
                   tlog, flushed, batch, nexts, mutex, mwait, polls, inactives, actives, reads,
                   readsLeft, rinflight, cancelled, acc, begun, before, accAtClose, closeRet,
                   lateBegun, drainedOK, pooled, dirty, corrupt>>
    /\ fatal' = (fatal \/ (closed = 0 /\ ~Swallow))

-----------------------------------------------------------------------------
\* the channel is handed to writers and closers only once serveChannel has been called
Served(p) == (p \in Writers \cup Closers) => pc["V"] # "v.start"

Step(p) ==
  /\ Served(p)
  /\
    \/ (p \in Writers /\ (MEnter(p) \/ HExc(p) \/ RFEnter(p) \/ WEnter(p) \/ WCtxDone(p) \/ WSelect(p) \/ WCas(p) \/ TWrite(p) \/ TWFlush(p)))
    \/ (p \notin Writers /\ (XStart(p) \/ SPoll(p) \/ TWritev(p) \/ SLen(p) \/ TSFlush(p)
                             \/ SRelease(p) \/ SRecheck(p) \/ SRecas(p) \/ SFail(p)
                             \/ CCas(p) \/ CPoll(p) \/ CSetErr(p) \/ TClose(p) \/ CCancel(p)
                             \/ CInactive(p)))
    \/ (p = "V" /\ VStart)
    \/ (p = "R" /\ (RActive \/ RCheck \/ TRead))

Fault(p) ==
  /\ Served(p)
  /\
    \/ (p \in Writers /\ (TWriteFail(p) \/ TWFlushFail(p)))
    \/ (p \notin Writers /\ (TWritevFail(p) \/ TSFlushFail(p)))
    \/ (p = "R" /\ TReadFail)

Next == (\E p \in Procs : Step(p) \/ Fault(p) \/ (p \in Writers /\ CtxCancel(p)) \/ Scribble(p)) \/ ParentCancel \/ PoolUser

Spec == Init /\ [][Next]_vars

\* fairness: every process that can take a (non-fault) step eventually does
FairSpec == Spec /\ \A p \in Procs : WF_vars(Step(p))

-----------------------------------------------------------------------------
(* Invariants: the listed properties                                         *)

TypeOK ==
    /\ running \in {0, 1} /\ closed \in {0, 1}
    /\ flushed <= Len(tlog)
    /\ Len(queue) <= QSize
    /\ nexts <= Len(SenderIds) + 1

AllBatched == UNION {Range(batch[p]) : p \in Procs}

NoFaultYet == faults = MaxFaults

\* C01: tlog is a prefix of the acceptance order, each payload at most once
C01_Prefix == NoFaultYet => IsPrefix(tlog, acc)
C01_NoDup == \A i, j \in 1..Len(tlog) : i # j => tlog[i] # tlog[j]
C01_ErrNoBytes ==
    \A w \in Writers : \A i \in 1..Len(wret[w]) :
        (wret[w][i] \in {"nospace", "ctx", "closed", "zero"} /\ NChunks[w][i] = 1) =>
            <<w, i, 1>> \notin (Range(tlog) \cup Range(queue) \cup AllBatched)
\* a payload whose call returned before another began precedes it
C01_RealTime ==
    \A b \in Range(tlog) : \A a \in before[OpOf(b)] :
        (a \in okset /\ NoFaultYet /\ closed = 0) =>
            \A ca \in ChunksOf(a) : (ca \in Range(tlog) /\ Pos(tlog, ca) < Pos(tlog, b))

\* C10: what reaches the transport are the bytes the caller's buffer held when the call was made
C10_Snapshot == ~corrupt
\* ... and no packet is in the pool while it still waits to be sent
C10_Exclusive == TrackBufs => pooled \cap (Range(queue) \cup AllBatched) = {}

\* C09: the low-level writes of one call (one message) are contiguous on the transport
C09_Contiguous ==
    \A i, j \in 1..Len(tlog) :
        (i < j /\ OpOf(tlog[i]) = OpOf(tlog[j])) => \A k \in i..j : OpOf(tlog[k]) = OpOf(tlog[i])

\* ... which rests on exclusive use of the transport's write side: at any time at most one goroutine stands in (or
\* before) a transport write or flush - the holder of the sender role, or of the write lock on a synchronous channel
C09_OneTransportWriter == Cardinality({p \in Procs : pc[p] \in {"t.write", "t.writev", "t.flush"}}) <= 1

\* C02: whenever something is queued on an open channel somebody is committed
\* to look at the queue again
C02_Responsible ==
    (queue # <<>> /\ closed = 0 /\ Async) =>
        \/ running = 1
        \/ \E p \in Procs : pc[p] \in {"s.recheck", "s.recas", "w.cas"}
        \* a sender whose transport call failed has released the role and is about to close the channel
        \/ \E p \in Procs : pc[p] = "c.cas" /\ carg[p] = "werr"

Quiesced == \A p \in Procs : pc[p] \in {"done", "none", "r.blocked", "v.wait", "msg.wait"}

C02_Quiescent ==
    (Quiesced /\ closed = 0 /\ NoFaultYet /\ ~ctxDone) =>
        /\ queue = <<>>
        /\ flushed = Len(tlog)
        /\ \A o \in okset : ChunksOf(o) \subseteq Range(tlog)

\* C06: everything accepted before Close was invoked is flushed before the
\* transport is closed (when Close did not give up waiting and nothing failed)
FlushedSet == {tlog[i] : i \in 1..flushed}
C06_Graceful ==
    (tclosed /\ NoFaultYet /\ drainedOK) => \A o \in accAtClose : ChunksOf(o) \subseteq FlushedSet

\* ... and the transport is never closed in the middle of a batch
C06_NoMidBatch ==
    (tclosed /\ NoFaultYet /\ drainedOK) =>
        \A p \in Procs : \A c \in Range(batch[p]) : OpOf(c) \notin accAtClose

\* C11: a write begun after some Close call returned fails and sends nothing
C11_FailAfterClose ==
    \A o \in lateBegun :
        /\ ChunksOf(o) \cap (Range(tlog) \cup Range(queue) \cup AllBatched) = {}
        /\ (Len(wret[o[1]]) >= o[2] => wret[o[1]][o[2]] \in {"closed", "terr", "ctx"})

\* C18: back-pressure
C18_NeverBlocks == ~Until => \A w \in Writers : pc[w] # "w.blocked"
C18_Bound == Len(queue) + Cardinality(AllBatched) <= QSize + BatchCap
C18_NoSpaceOnlyWhenFull ==
    [][\A w \in Writers :
          (Len(wret'[w]) > Len(wret[w]) /\ Last(wret'[w]) = "nospace") => Len(queue) = QSize]_vars
C18_CancelNoBytes ==
    \A w \in Writers : \A i \in 1..Len(wret[w]) :
        (wret[w][i] \in {"ctx", "closed", "zero"} /\ NChunks[w][i] = 1) => <<w, i, 1>> \notin Range(tlog)

\* C05: lifecycle
C05_Once == tcloses <= 1 /\ Len(inactives) <= 1 /\ actives <= 1
C05_InactiveErr == \A i \in 1..Len(inactives) : inactives[i] = werr
C05_ActiveFirst == (reads > 0 \/ pc["V"] = "done") => actives = 1
C05_CloseRetImpliesClosed == closeRet => closed = 1
C05_WinnerDone == (Len(inactives) = 1) => (ctxDone /\ tclosed)
C05_ReadsSequential == rinflight <= 1
\* the read loop only ends through Close: once it has ended the channel is closed
C05_LoopExitClosed == pc["R"] = "done" => closed = 1

\* C07: once a sender write/flush or a read failed on an open channel (fatal = TRUE) and everything
\* has come to rest, the channel is closed, with that error unless a Close call won before
C07_FaultCloses ==
    (fatal /\ Quiesced) => (closed = 1 /\ tclosed /\ Len(inactives) = 1 /\ pc["R"] \in {"done", "none"})

\* liveness (FairSpec)
C07_FaultEventuallyCloses == fatal ~> (tclosed /\ pc["R"] \in {"done", "none"})
AllWritersDone == \A w \in Writers : pc[w] = "done"
Delivered == \A o \in okset : ChunksOf(o) \subseteq FlushedSet
C02_Live == (AllWritersDone /\ closed = 0) ~> (Delivered \/ closed = 1 \/ ~NoFaultYet)
C18_WaitEnds == \A w \in Writers : (pc[w] = "w.blocked") ~> (pc[w] # "w.blocked")
C05_ReadLoopEnds == (tclosed \/ closed = 1) ~> (pc["R"] \in {"done", "none"})
C06_CloseTerminates == \A c \in Closers : (pc[c] = "c.poll") ~> (pc[c] = "done")

=============================================================================
