"""Property id -> check function."""
import json
import vlib
import chancheck


def _chan(pid, tier, seed):
    cx = chancheck.Ctx(pid, tier, seed)
    return chancheck.CHECKS[pid](cx)


CHECKS = {pid: _chan for pid in chancheck.CHECKS}


def replay(pid, path):
    obj = json.load(open(path))
    if obj.get("module") == "chan":
        wd = vlib.workdir("replay")
        drv, _ = vlib.build_driver(wd)
        res = vlib.run_driver(drv, "chan", [obj["case"]], wd, shards=1)[0]
        vlib.cleanup(wd)
        fails = [f for f in res.get("fails") or [] if f["prop"] == pid]
        for f in fails:
            print("VIOLATION property=%s replay=%s" % (pid, path))
            print("  %s: %s" % (f["key"], f["msg"]))
        if res.get("harness_err"):
            print("INCONCLUSIVE:", res["harness_err"])
            return 2
        if not fails:
            print("replay of %s: property %s held" % (path, pid))
        return 1 if fails else 0
    print("unknown replay module")
    return 2
