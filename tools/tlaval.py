"""Parser for TLA+ values as TLC prints them in action labels / states:
numbers, strings, booleans, <<tuples>>, {sets}, [records |-> ..], (f :> v @@ ...)."""
import re

_tok = re.compile(r'\s*(<<|>>|\|->|:>|@@|[\[\]{}(),]|-?\d+|"(?:[^"\\]|\\.)*"|[A-Za-z_][A-Za-z_0-9]*)')


def tokenize(s):
    pos, out = 0, []
    while pos < len(s):
        m = _tok.match(s, pos)
        if not m:
            if s[pos:].strip() == "":
                break
            raise ValueError("cannot tokenize %r at %d" % (s, pos))
        out.append(m.group(1))
        pos = m.end()
    return out


class P:
    def __init__(self, toks):
        self.t, self.i = toks, 0

    def peek(self):
        return self.t[self.i] if self.i < len(self.t) else None

    def next(self):
        x = self.t[self.i]
        self.i += 1
        return x

    def expect(self, x):
        y = self.next()
        if y != x:
            raise ValueError("expected %s got %s" % (x, y))

    def value(self):
        t = self.next()
        if t == "<<":
            out = []
            while self.peek() != ">>":
                out.append(self.value())
                if self.peek() == ",":
                    self.next()
            self.next()
            return out
        if t == "{":
            out = []
            while self.peek() != "}":
                out.append(self.value())
                if self.peek() == ",":
                    self.next()
            self.next()
            return {"__set__": out}
        if t == "[":
            out = {}
            while self.peek() != "]":
                k = self.next()
                self.expect("|->")
                out[k] = self.value()
                if self.peek() == ",":
                    self.next()
            self.next()
            return out
        if t == "(":
            out = {}
            while True:
                k = self.value()
                self.expect(":>")
                out[k if not isinstance(k, list) else tuple(k)] = self.value()
                if self.peek() == "@@":
                    self.next()
                    continue
                break
            self.expect(")")
            return out
        if t == "TRUE":
            return True
        if t == "FALSE":
            return False
        if t.startswith('"'):
            return t[1:-1]
        if re.match(r"-?\d+$", t):
            return int(t)
        return t


def parse_value(s):
    return P(tokenize(s)).value()


def parse_call(label):
    """'Name(arg1, arg2)' -> (name, [args])"""
    m = re.match(r"\s*(\w+)\s*(?:\((.*)\))?\s*$", label, re.S)
    name, rest = m.group(1), m.group(2)
    if rest is None or rest.strip() == "":
        return name, []
    p = P(tokenize(rest))
    args = []
    while p.peek() is not None:
        args.append(p.value())
        if p.peek() == ",":
            p.next()
    return name, args


def unset(v):
    """sets -> sorted lists (JSON friendly)"""
    if isinstance(v, dict) and "__set__" in v:
        return sorted(unset(x) for x in v["__set__"])
    if isinstance(v, dict):
        return {k: unset(x) for k, x in v.items()}
    if isinstance(v, list):
        return [unset(x) for x in v]
    return v
