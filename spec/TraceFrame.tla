------------------------------ MODULE TraceFrame ------------------------------
(* Trace validation: streams encoded by the real encoders and decoded by the real decoders
   (under some fragmentation) must produce, invocation by invocation, the outcomes of Frame.tla. *)
EXTENDS Frame, Json, IOUtils

Trace == ndJsonDeserialize(IOEnv.TRACE_FILE)
VARIABLE l

TraceInit == Init /\ l = 1 /\ TLCSet(1, 1)

Reset ==
    /\ cfg' = [kind |-> "none"] /\ frames' = <<>> /\ cut' = 0 /\ pos' = 0 /\ k' = 1
    /\ last' = [res |-> "none"] /\ phase' = "idle" /\ raw' = FALSE

TraceStep ==
    /\ l <= Len(Trace)
    /\ l' = l + 1
    /\ LET e == Trace[l] IN
       CASE e.op = "reset" -> Reset
         [] e.op = "start" ->
              /\ Start(e.cfg, e.ps, e.cut)
              \* what the real encoder produced: header value and frame size per payload
              /\ \A i \in 1..Len(e.ps) : frames'[i].hv = e.enc[i][1] /\ frames'[i].size = e.enc[i][2]
         [] e.op = "raw" -> StartRaw(e.cfg, e.hv, e.body)
         [] e.op = "dec" ->
              /\ Step
              /\ last'.res = e.res /\ last'.len = e.len /\ last'.complete = e.complete
              /\ last'.consumed = e.consumed

TraceSpec == TraceInit /\ [][TraceStep]_<<vars, l>>
Mark == (l > TLCGet(1) => TLCSet(1, l)) /\ TRUE
TraceAccepted == PrintT(<<"HIGHWATER", TLCGet(1)>>) /\ TLCGet(1) = Len(Trace) + 1
=============================================================================
