"""Property id -> check function."""
import json
import vlib
import chancheck
import seqcheck
import core


def _chan(pid, tier, seed):
    cx = chancheck.Ctx(pid, tier, seed)
    return chancheck.CHECKS[pid](cx)


def _seq(pid, tier, seed):
    cx = core.Ctx(pid, tier, seed)
    return seqcheck.CHECKS[pid](cx)


CHECKS = {pid: _chan for pid in chancheck.CHECKS}
CHECKS.update({pid: _seq for pid in seqcheck.CHECKS})


def replay(pid, path):
    obj = json.load(open(path))
    if obj.get("module"):
        wd = vlib.workdir("replay")
        drv, _ = vlib.build_driver(wd)
        res = vlib.run_driver(drv, obj["module"], [obj["case"]], wd, shards=1)[0]
        vlib.cleanup(wd)
        fails = [f for f in res.get("fails") or [] if f["prop"] == pid]
        for f in fails:
            print("VIOLATION property=%s replay=%s" % (pid, path))
            print("  %s: %s" % (f["key"], f["msg"]))
        if res.get("harness_err"):
            print("INCONCLUSIVE:", res["harness_err"])
            return 2
        if not fails:
            print("replay of %s: property %s held" % (path, pid))
        return 1 if fails else 0
    print("unknown replay module")
    return 2
