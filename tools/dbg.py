"""debug helper: run random cases of a config and show the first rejected trace step"""
import sys, random, json
sys.path.insert(0,'/verif/tools')
from chanlib import *
from chancheck import W
def run(c, n=30, seed=1, policy="uniform", fault_prob=0.0, cancel_prob=0.0):
    wd=workdir('dbg')
    rnd=random.Random(seed)
    drv,_=build_driver(wd)
    cases=[go_case(c,'d%d'%i,rnd,rand={"seed":rnd.randrange(1<<30),"policy":policy,"fault_prob":fault_prob,"cancel_prob":cancel_prob,"depth":3},sizes=SMALL_SIZES) for i in range(n)]
    results=run_driver(drv,'chan',cases,wd)
    v=validate_traces(wd,'D',c,results)
    print('accepted',len(v['accepted']),'rejected',v['rejected'][:5],'inv',v['inv_violations'][:3])
    byid={r['id']:r for r in results}
    for rid,step,line in v['rejected'][:1]:
        r=byid[rid]
        for i,e in enumerate(r['events'][:step]):
            mark = '>>' if i==step-1 else '  '
            print(mark,i+1,e['p'],e['a'],{k:v for k,v in e['pcs'].items() if v not in('none',)},e['st'],e['rets'])
    for r in results:
        if r.get('harness_err'): print('HERR',r['id'],r['harness_err']); break
        if r.get('fails'): print('FAIL',r['id'],r['fails'][:2]); break
    cleanup(wd)
    return results, v
