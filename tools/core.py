"""Generic check context: counters, verdict, evidence."""
import json, os, random, time
from vlib import *

ASSUME = [
    "TLC 1.8 explores the bounded configurations exhaustively; larger configurations are only sampled",
    "the gate scheduler serialises the real goroutines at the hooks of build tag verif and at the mock transport; "
    "interleavings between two gates are not explored",
    "mock transport/executor stand in for TCP and the goroutine executor",
    "verdicts come only from the observable-level oracle on the real code; spec-only counterexamples are replayed first",
]


class Ctx:
    """One check run: collects counters for the evidence file."""

    def __init__(self, pid, tier, seed):
        self.pid, self.tier, self.seed = pid, tier, seed
        self.rnd = random.Random(seed * 1000003 + sum(map(ord, pid)))
        self.wd = workdir(pid)
        self.t0 = time.time()
        self.states = 0
        self.transitions = 0
        self.mc_runs = []
        self.traces_validated = 0
        self.replays = 0
        self.edges_total = 0
        self.edges_walked = 0
        self.nonconforming = []
        self.schedule_divergences = 0
        self.samples = []
        self.fails = []        # (fail dict, case) of this property
        self.other_fails = {}  # prop -> count
        self.actions = {}
        self.harness_errors = []
        self.selftests = {}
        self.driver = None
        self.notes = []
        self.module = "chan"
        self.assume = list(ASSUME)
        self.extra_cov = {}

    def build(self):
        self.driver, bt = build_driver(self.wd)
        return self.driver

    def add_mc(self, res, c, what):
        self.states += res.get("distinct", 0)
        self.transitions += res.get("generated", 0)
        self.mc_runs.append({"what": what, "distinct": res.get("distinct"), "generated": res.get("generated"),
                             "depth": res.get("depth"), "wall_s": round(res["wall"], 1),
                             "violated": res.get("violated")})

    def absorb(self, results, cases):
        byid = {c["id"]: c for c in cases}
        for r in results:
            self.replays += 1
            self.schedule_divergences += r.get("diverged", 0)
            for k, v in (r.get("actions") or {}).items():
                self.actions[k] = self.actions.get(k, 0) + v
            if r.get("harness_err"):
                self.harness_errors.append((r["id"], r["harness_err"]))
            for f in r.get("fails") or []:
                if f["prop"] == self.pid:
                    self.fails.append((f, byid[r["id"]], r))
                else:
                    self.other_fails[f["prop"]] = self.other_fails.get(f["prop"], 0) + 1


def finish(cx, level_text_extra=None, rule=None):
    """Verdict + evidence. Returns exit code."""
    pid = cx.pid
    rc = 0
    known = {}
    new = []
    for f, case, r in cx.fails:
        kf = open_finding(pid, f["key"])
        if kf:
            known.setdefault(kf["key"], (kf, f))
        else:
            new.append((f, case, r))
    for key, (kf, f) in sorted(known.items()):
        log("KNOWN-FINDING: property=%s %s [%s] e.g. %s" % (pid, kf["what"], key, f["msg"]))
    seen = set()
    for f, case, r in new:
        if f["key"] in seen:
            continue
        seen.add(f["key"])
        case = dict(case)
        if case.get("_module", cx.module) == "chan" and "sched" in r:
            case["schedule"] = [s[:2] for s in r["sched"]]
            case.pop("random", None)
        mod = case.pop("_module", cx.module)
        path = save_replay(pid, {"module": mod, "case": case, "fail": f})
        log("VIOLATION property=%s replay=%s" % (pid, path))
        log("  %s: %s" % (f["key"], f["msg"]))
        rc = 1
    if cx.harness_errors and rc == 0:
        log("INCONCLUSIVE: %d driver cases failed in the harness, e.g. %s" % (len(cx.harness_errors), cx.harness_errors[0]))
        rc = 2
    if cx.nonconforming and rc == 0:
        log("NONCONFORMING: %d recorded executions are not behaviours of the specification (first: %s); "
            "the observable-level oracle passed on all of them, so this is not reported as a violation"
            % (len(cx.nonconforming), cx.nonconforming[0]))
    cov = {
        "states": max(cx.states, 1), "transitions": max(cx.transitions, 1),
        "traces_validated_against_impl": cx.traces_validated,
        "samples": cx.samples or [{"note": "no sample"}],
        "evaluations": cx.replays,
        "distinct_nontrivial": cx.edges_walked,
        "rule": rule or ("cases = TLC state-graph edge-cover schedules and seeded random schedules executed on the real "
                         "channel through the gate scheduler; distinct_nontrivial = distinct spec transitions (graph edges) "
                         "the real code was observed to take"),
        "model_checking_runs": cx.mc_runs,
        "replays_on_real_code": cx.replays,
        "graph_edges_total": cx.edges_total, "graph_edges_walked_by_real_code": cx.edges_walked,
        "nonconforming": len(cx.nonconforming), "nonconforming_detail": cx.nonconforming[:5],
        "schedule_divergences": cx.schedule_divergences,
        "real_code_actions": cx.actions,
        "oracle_failures_of_other_properties_seen": cx.other_fails,
        "selftests": cx.selftests,
        "known_findings_reproduced": sorted(known.keys()),
        "tree_model": json.load(open(os.path.join(SPEC, "tree_model.json"))),
        "exhaustive": False,
        "notes": cx.notes,
    }
    cov.update(cx.extra_cov)
    write_evidence(pid, cx.tier, cx.seed, "model_checking", cov, time.time() - cx.t0, len(seen), cx.assume)
    cleanup(cx.wd)
    log("%s %s: exit %d  (%d TLC states, %d replays on real code, %d traces validated, %d/%d graph edges walked, %.1fs)"
        % (pid, cx.tier, rc, cx.states, cx.replays, cx.traces_validated, cx.edges_walked, cx.edges_total, time.time() - cx.t0))
    return rc


