package main

// Carrier driver (C14): the head handler's carrier types, Channel.ReadFrom over scripted readers
// (short reads, data together with EOF, empty reads) and the utils conversion helpers.

import (
	"bytes"
	"context"
	"errors"
	"fmt"
	"io"
	"math/rand"
	"strings"
	"time"

	netty "github.com/go-netty/go-netty"
	"github.com/go-netty/go-netty/utils"

	"verifharness/mock"
	"verifharness/sched"
)

type ScriptItem struct {
	N   int    `json:"n"`
	Err string `json:"err"` // nil eof other
}

type CarrierCase struct {
	ID     string       `json:"id"`
	Op     string       `json:"op"` // readfrom bytereader head helpers
	Script []ScriptItem `json:"script"`
	Async  bool         `json:"async"`
	Kind   string       `json:"kind"` // head: bytes vec buffer writerto reader string int struct
	Size   int          `json:"size"`
	Parts  int          `json:"parts"`
	Seed   int64        `json:"seed"`
	Reused bool         `json:"reused"` // steal: wrap the scripted reader so that its WriteTo re-uses one buffer (io.MultiReader)
	Via    string       `json:"via"`    // steal: "steal" (utils.StealBytes) or "tobytes" (utils.ToBytes)
	Reuse  bool         `json:"reuse"`  // head on a queued channel: the sender is held back, the caller overwrites its buffers right after Write returned
}

// heldExecutor starts what it is given only once released.
type heldExecutor struct{ release chan struct{} }

func (h heldExecutor) Exec(fn func()) {
	go func() {
		<-h.release
		fn()
	}()
}

type CarrierEvent struct {
	Case   string       `json:"case,omitempty"`
	Op     string       `json:"op"`
	Script []ScriptItem `json:"script"`
	Writes []int        `json:"writes"`
	N      int          `json:"n"`
	Err    string       `json:"err"`
	Bytes  []int        `json:"bytes"`
	Reused bool         `json:"reused"` // steal: the WriterTo writes every chunk from one re-filled buffer
	Exact  bool         `json:"exact"`  // steal: the collected bytes are exactly the source's content
}

type CarrierResult struct {
	ID         string         `json:"id"`
	Events     []CarrierEvent `json:"events"`
	Fails      []Fail         `json:"fails"`
	HarnessErr string         `json:"harness_err,omitempty"`
	Diverged   int            `json:"diverged"`
	Actions    map[string]int `json:"actions"`
}

var errOther = errors.New("scripted reader failure")

// scriptReader returns the scripted results, then (0, EOF); data is position-coded
type scriptReader struct {
	items  []ScriptItem
	i      int
	pos    int
	seed   int64
	sticky error
}

func (r *scriptReader) Read(p []byte) (int, error) {
	if r.sticky != nil {
		return 0, r.sticky // a reader that has failed (or ended) keeps saying so
	}
	if r.i >= len(r.items) {
		return 0, io.EOF
	}
	it := r.items[r.i]
	n := it.N
	if n > len(p) {
		// the destination is smaller than the scripted result: hand out what fits, keep the rest
		r.items[r.i].N -= len(p)
		n = len(p)
		for k := 0; k < n; k++ {
			p[k] = streamByte(r.seed, r.pos+k)
		}
		r.pos += n
		return n, nil
	}
	r.i++
	for k := 0; k < n; k++ {
		p[k] = streamByte(r.seed, r.pos+k)
	}
	r.pos += n
	switch it.Err {
	case "eof":
		r.sticky = io.EOF
		return n, io.EOF
	case "other":
		r.sticky = errOther
		return n, errOther
	}
	return n, nil
}

func errClass(err error) string {
	switch {
	case err == nil:
		return "nil"
	case errors.Is(err, io.EOF):
		return "eof"
	}
	return "other"
}

type carrierProbe struct {
	exc *[]error
}

func (p carrierProbe) HandleException(ctx netty.ExceptionContext, ex netty.Exception) {
	*p.exc = append(*p.exc, ex)
}

func newCarrierChannel(async bool) (netty.Channel, *mock.Transport, *[]error) {
	return newCarrierChannelExec(async, netty.AsyncExecutor())
}

func newCarrierChannelExec(async bool, ex netty.Executor) (netty.Channel, *mock.Transport, *[]error) {
	netty.VerifHook = nil
	tr := mock.NewTransport(nil)
	pl := netty.NewPipeline()
	var exc []error
	pl.AddLast(carrierProbe{&exc})
	var ch netty.Channel
	if async {
		ch = netty.NewAsyncWriteChannel(4, true)(1, context.Background(), pl, tr, ex)
	} else {
		ch = netty.NewChannel()(1, context.Background(), pl, tr, ex)
	}
	go pl.ServeChannel(ch)
	for i := 0; pl.Channel() == nil && i < 1000000; i++ {
		time.Sleep(time.Microsecond)
	}
	return ch, tr, &exc
}

func waitStream(tr *mock.Transport, want int) []byte {
	// until everything expected has been written and flushed, or nothing can move any more (goroutine statuses)
	deadline := time.Now().Add(30 * time.Second)
	quiet := 0
	for {
		stream, fl, _, _ := tr.Snapshot()
		if (len(stream) >= want && fl == len(stream)) || time.Now().After(deadline) {
			return stream
		}
		if sched.AllQuiet() {
			quiet++
			if quiet >= 3 {
				stream, _, _, _ = tr.Snapshot()
				return stream
			}
		} else {
			quiet = 0
		}
		time.Sleep(200 * time.Microsecond)
	}
}

func content(seed int64, n int) []byte {
	b := make([]byte, n)
	for i := range b {
		b[i] = streamByte(seed, i)
	}
	return b
}

type multiWriterTo struct{ parts [][]byte }

func (m multiWriterTo) WriteTo(w io.Writer) (int64, error) {
	var t int64
	for _, p := range m.parts {
		n, err := w.Write(p)
		t += int64(n)
		if err != nil {
			return t, err
		}
	}
	return t, nil
}

func runCarrierCase(c *CarrierCase) *CarrierResult {
	res := &CarrierResult{ID: c.ID, Fails: []Fail{}, Actions: map[string]int{}}
	failed := map[string]bool{}
	fail := func(key, msg string) {
		if !failed[key] {
			failed[key] = true
			res.Fails = append(res.Fails, Fail{Prop: "C14", Key: key, Msg: msg})
		}
	}
	res.Actions[c.Op]++
	switch c.Op {
	case "readfrom":
		ch, tr, _ := newCarrierChannel(c.Async)
		total, upto := 0, 0
		stop := false
		for _, it := range c.Script {
			if !stop {
				upto += it.N
			}
			if it.Err != "nil" {
				stop = true
			}
			total += it.N
		}
		r := &scriptReader{items: append([]ScriptItem(nil), c.Script...), seed: c.Seed}
		n, err := ch.ReadFrom(r)
		stream := waitStream(tr, upto)
		ev := CarrierEvent{Op: "readfrom", Script: c.Script, N: int(n), Err: errClass(err), Writes: []int{}, Bytes: []int{}}
		if !c.Async {
			for _, rec := range tr.Records {
				ev.Writes = append(ev.Writes, len(rec))
			}
		} else {
			// the sender merges packets: the per-chunk writes are not observable, only the bytes
			for _, it := range c.Script[:] {
				if it.N > 0 {
					ev.Writes = append(ev.Writes, it.N)
				}
				if it.Err != "nil" {
					break
				}
			}
		}
		if !bytes.Equal(stream, content(c.Seed, upto)) {
			fail("readfrom-bytes", fmt.Sprintf("ReadFrom over reader script %v (async=%v) transmitted %d bytes that are not the %d bytes the reader produced", c.Script, c.Async, len(stream), upto))
		}
		wantErr := "nil"
		for _, it := range c.Script {
			if it.Err == "other" {
				wantErr = "other"
				break
			}
			if it.Err == "eof" {
				break
			}
		}
		if int(n) != upto || errClass(err) != wantErr {
			fail("readfrom-result", fmt.Sprintf("ReadFrom over reader script %v returned (%d, %v), expected (%d, %s)", c.Script, n, err, upto, wantErr))
		}
		if c.Script == nil {
			ev.Script = []ScriptItem{}
		}
		res.Events = append(res.Events, ev)
		ch.Close(nil)
	case "steal":
		upto := 0
		for _, it := range c.Script {
			upto += it.N
			if it.Err != "nil" {
				break
			}
		}
		src := &scriptReader{items: append([]ScriptItem(nil), c.Script...), seed: c.Seed}
		var wt io.WriterTo
		if c.Reused {
			// io.MultiReader's WriteTo copies through one buffer that it fills again for every Read
			wt = io.MultiReader(src).(io.WriterTo)
		} else {
			// every chunk is a slice of its own
			var parts [][]byte
			all := content(c.Seed, upto)
			off := 0
			for _, it := range c.Script {
				if it.N > 0 {
					parts = append(parts, append([]byte(nil), all[off:off+it.N]...))
					off += it.N
				}
				if it.Err != "nil" {
					break
				}
			}
			wt = multiWriterTo{parts}
		}
		var got []byte
		var err error
		if c.Via == "tobytes" {
			got, err = utils.ToBytes(wt)
		} else {
			got, err = utils.StealBytes(wt)
		}
		want := content(c.Seed, upto)
		ev := CarrierEvent{Op: "steal", Script: c.Script, N: len(got), Err: errClass(err), Writes: []int{}, Bytes: []int{}, Reused: c.Reused, Exact: bytes.Equal(got, want)}
		if err != nil || !ev.Exact {
			how := "chunks that are slices of their own"
			if c.Reused {
				how = "an io.WriterTo that writes every chunk from one re-filled buffer (io.MultiReader over a fragmenting reader)"
			}
			fail("steal-bytes/"+c.Via, fmt.Sprintf("utils.%s over %s, reader script %v: returned %d bytes (err %v) that are not the %d bytes of the source", map[string]string{"tobytes": "ToBytes", "": "StealBytes", "steal": "StealBytes"}[c.Via], how, c.Script, len(got), err, upto))
		}
		res.Events = append(res.Events, ev)
	case "bytereader":
		r := &scriptReader{items: append([]ScriptItem(nil), c.Script...), seed: c.Seed}
		br := utils.NewByteReader(r)
		ev := CarrierEvent{Op: "bytereader", Script: c.Script, Writes: []int{}, Bytes: []int{}}
		if c.Script == nil {
			ev.Script = []ScriptItem{}
		}
		pos := 0
		for k := 0; k < 64; k++ {
			before := r.pos
			b, err := br.ReadByte()
			if err != nil {
				// io.ByteReader: with an error the byte is undefined and must be ignored
				ev.Err = errClass(err)
				break
			}
			if r.pos > before && b == streamByte(c.Seed, before) {
				ev.Bytes = append(ev.Bytes, 1)
				pos++
			} else {
				ev.Bytes = append(ev.Bytes, 0)
				fail("bytereader-phantom", fmt.Sprintf("ByteReader.ReadByte over reader script %v returned a byte (value %d, nil error) although the reader had produced nothing", c.Script, b))
			}
		}
		upto := 0
		for _, it := range c.Script {
			upto += it.N
			if it.Err != "nil" {
				break
			}
		}
		if pos != upto {
			fail("bytereader-lost", fmt.Sprintf("ByteReader over reader script %v delivered %d of the %d bytes the reader produced before it failed", c.Script, pos, upto))
		}
		res.Events = append(res.Events, ev)
	case "head":
		var held heldExecutor
		var ch netty.Channel
		var tr *mock.Transport
		var exc *[]error
		if c.Reuse && c.Async {
			held = heldExecutor{make(chan struct{})}
			ch, tr, exc = newCarrierChannelExec(true, held)
		} else {
			ch, tr, exc = newCarrierChannel(c.Async)
		}
		data := content(c.Seed, c.Size)
		var msg netty.Message
		var mine []byte // the caller's own memory behind the message
		supported := true
		switch c.Kind {
		case "bytes":
			mine = append([]byte(nil), data...)
			msg = mine
		case "vec":
			mine = append([]byte(nil), data...)
			msg = splitParts(mine, c.Parts)
		case "buffer":
			mine = append([]byte(nil), data...)
			msg = bytes.NewBuffer(mine)
		case "writerto":
			msg = multiWriterTo{splitParts(append([]byte(nil), data...), c.Parts)}
		case "reader":
			msg = io.MultiReader(bytes.NewReader(data[:len(data)/2]), bytes.NewReader(data[len(data)/2:]))
		case "strreader":
			msg = strings.NewReader(string(data))
		case "string":
			msg, supported = string(data), false
		case "int":
			msg, supported = 42, false
		case "struct":
			msg, supported = struct{ A int }{1}, false
		case "nil":
			msg, supported = nil, false
		}
		werr := ch.Write(msg)
		if held.release != nil {
			// Write has returned: the buffers are the caller's again
			for i := range mine {
				mine[i] = 0xEE
			}
			close(held.release)
		}
		want := 0
		if supported {
			want = len(data)
		}
		stream := waitStream(tr, want)
		if supported {
			if !bytes.Equal(stream, data) {
				fail("head-bytes/"+c.Kind, fmt.Sprintf("Channel.Write(%s, %d bytes, async=%v) transmitted %d bytes that differ from the message", c.Kind, len(data), c.Async, len(stream)))
			}
			if len(*exc) != 0 || werr != nil {
				fail("head-exception/"+c.Kind, fmt.Sprintf("Channel.Write(%s) raised %v / returned %v", c.Kind, *exc, werr))
			}
		} else {
			time.Sleep(2 * time.Millisecond)
			stream, _, _, _ = tr.Snapshot()
			if len(stream) != 0 {
				fail("head-unsupported-bytes/"+c.Kind, fmt.Sprintf("an unsupported message type (%s) put %d bytes on the transport", c.Kind, len(stream)))
			}
			if len(*exc) != 1 {
				fail("head-unsupported-exception/"+c.Kind, fmt.Sprintf("an unsupported message type (%s) raised %d exceptions", c.Kind, len(*exc)))
			}
		}
		ch.Close(nil)
	case "helpers":
		data := content(c.Seed, c.Size)
		rnd := rand.New(rand.NewSource(c.Seed))
		frag := func() io.Reader {
			// a reader that returns its data in random fragments, the last one together with EOF
			var items []ScriptItem
			left := len(data)
			for left > 0 {
				k := 1 + rnd.Intn(minInt(left, 700))
				left -= k
				it := ScriptItem{N: k, Err: "nil"}
				if left == 0 && rnd.Intn(2) == 0 {
					it.Err = "eof"
				}
				items = append(items, it)
				if rnd.Intn(5) == 0 {
					items = append(items, ScriptItem{N: 0, Err: "nil"})
				}
			}
			return &scriptReader{items: items, seed: c.Seed}
		}
		inputs := map[string]func() interface{}{
			"bytes":     func() interface{} { return append([]byte(nil), data...) },
			"vec":       func() interface{} { return splitParts(append([]byte(nil), data...), 3) },
			"string":    func() interface{} { return string(data) },
			"buffer":    func() interface{} { return bytes.NewBuffer(append([]byte(nil), data...)) },
			"bytesrd":   func() interface{} { return bytes.NewReader(data) },
			"stringsrd": func() interface{} { return strings.NewReader(string(data)) },
			"fragrd":    func() interface{} { return frag() },
		}
		for name, mk := range inputs {
			b, err := utils.ToBytes(mk())
			if err != nil || !bytes.Equal(b, data) {
				fail("tobytes/"+name, fmt.Sprintf("utils.ToBytes(%s, %d bytes) returned %d bytes, err %v", name, len(data), len(b), err))
			}
			if name != "buffer" {
				r, err := utils.ToReader(mk())
				if err != nil {
					fail("toreader/"+name, fmt.Sprintf("utils.ToReader(%s) failed: %v", name, err))
				} else if got, _ := io.ReadAll(r); !bytes.Equal(got, data) {
					fail("toreader/"+name, fmt.Sprintf("utils.ToReader(%s, %d bytes) yields %d bytes", name, len(data), len(got)))
				}
			}
		}
		// the same input object converted twice (a message sent to two channels): the conversion must not use it up
		for name, mk := range map[string]func() interface{}{
			"bytes":  func() interface{} { return append([]byte(nil), data...) },
			"vec":    func() interface{} { return splitParts(append([]byte(nil), data...), 3) },
			"string": func() interface{} { return string(data) },
		} {
			in := mk()
			for round := 1; round <= 2; round++ {
				r, err := utils.ToReader(in)
				if err != nil {
					fail("toreader/"+name, fmt.Sprintf("utils.ToReader(%s) failed: %v", name, err))
					break
				}
				if got, _ := io.ReadAll(r); !bytes.Equal(got, data) {
					fail("toreader/reuse-"+name, fmt.Sprintf("conversion #%d of the same %s (%d bytes) with utils.ToReader yields %d bytes", round, name, len(data), len(got)))
				}
				if b, err := utils.ToBytes(in); err != nil || !bytes.Equal(b, data) {
					fail("tobytes/reuse-"+name, fmt.Sprintf("utils.ToBytes of the same %s after %d reader conversions returned %d of %d bytes, err %v", name, round, len(b), len(data), err))
				}
			}
		}
		// a multi-segment reader whose first segment is a view into a longer record: what follows the view in the
		// record is live data and must survive StealBytes / ToBytes
		if len(data) >= 2 {
			k := 1 + rnd.Intn(len(data)-1)
			record := append(append([]byte(nil), data[:k]...), []byte("LIVE-DATA-BEHIND-THE-FIRST-SEGMENT")...)
			keep := append([]byte(nil), record...)
			mr := func() io.Reader {
				return io.MultiReader(bytes.NewReader(record[:k]), bytes.NewReader(append([]byte(nil), data[k:]...)))
			}
			if wt, ok := mr().(io.WriterTo); ok {
				if b, err := utils.StealBytes(wt); err != nil || !bytes.Equal(b, data) {
					fail("stealbytes/segmented", fmt.Sprintf("utils.StealBytes(two-segment reader, %d bytes) returned %d bytes, err %v", len(data), len(b), err))
				}
			}
			if b, err := utils.ToBytes(mr()); err != nil || !bytes.Equal(b, data) {
				fail("tobytes/segmented", fmt.Sprintf("utils.ToBytes(two-segment reader, %d bytes) returned %d bytes, err %v", len(data), len(b), err))
			}
			if !bytes.Equal(record, keep) {
				fail("stealbytes/input-modified", "collecting a two-segment reader overwrote the caller's memory behind the first segment")
			}
		}
		// blocks that are views of one over-allocated buffer with a foreign block in between (header,
		// separator, body): the result must be the concatenation and the inputs must stay untouched
		if len(data) >= 2 {
			k := 1 + rnd.Intn(len(data)-1)
			rec := make([]byte, len(data), 2*len(data)+16)
			copy(rec, data)
			sep := []byte(": ")
			blocks := [][]byte{rec[:k], sep, rec[k:]}
			want := append(append(append([]byte(nil), data[:k]...), sep...), data[k:]...)
			got, err := utils.ToBytes(blocks)
			if err != nil || !bytes.Equal(got, want) {
				fail("tobytes/aliased-vec", fmt.Sprintf("utils.ToBytes([][]byte{rec[:%d], sep, rec[%d:]}) (blocks sharing one buffer, %d bytes) returned %d bytes that are not their concatenation", k, k, len(data), len(got)))
			}
			if !bytes.Equal(rec[:len(data)], data) {
				fail("tobytes/input-modified", "utils.ToBytes modified the caller's blocks")
			}
			r, err := utils.ToReader([][]byte{rec[:k], sep, rec[k:]})
			if err == nil {
				if got, _ := io.ReadAll(r); !bytes.Equal(got, want) {
					fail("toreader/aliased-vec", "utils.ToReader over blocks sharing one buffer does not yield their concatenation")
				}
			}
		}
		if n := utils.CountOf(splitParts(data, 3)); int(n) != len(data) {
			fail("countof", fmt.Sprintf("utils.CountOf returned %d for %d bytes", n, len(data)))
		}
		if b, err := utils.StealBytes(bytes.NewReader(data)); err != nil || !bytes.Equal(b, data) {
			fail("stealbytes", fmt.Sprintf("utils.StealBytes(bytes.Reader, %d bytes) returned %d bytes, err %v", len(data), len(b), err))
		}
		if b, err := utils.StealBytes(multiWriterTo{splitParts(data, 3)}); err != nil || !bytes.Equal(b, data) {
			fail("stealbytes-multi", fmt.Sprintf("utils.StealBytes(multi-write WriterTo, %d bytes) returned %d bytes, err %v", len(data), len(b), err))
		}
		for _, bad := range []interface{}{42, struct{}{}, nil, 3.5} {
			if _, err := utils.ToBytes(bad); err == nil {
				fail("tobytes-unsupported", fmt.Sprintf("utils.ToBytes(%T) reported no error", bad))
			}
			if _, err := utils.ToReader(bad); err == nil {
				fail("toreader-unsupported", fmt.Sprintf("utils.ToReader(%T) reported no error", bad))
			}
		}
	}
	return res
}
