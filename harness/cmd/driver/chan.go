package main

// Channel driver: runs the real go-netty channel (built from /repo with -tags
// verif) under the gate scheduler, following a TLC-derived schedule or its own
// seeded random/priority schedule, records one event per step for TLC trace
// validation and evaluates the observable-level oracles of the properties.

import (
	"bytes"
	"context"
	"encoding/binary"
	"errors"
	"fmt"
	"io"
	"math/rand"
	"net"
	"runtime"
	"runtime/debug"
	"sort"
	"strings"
	"sync"
	"syscall"
	"time"

	netty "github.com/go-netty/go-netty"
	"github.com/go-netty/go-netty/codec/format"
	"github.com/go-netty/go-netty/codec/frame"
	"github.com/go-netty/go-netty/transport"
	"github.com/go-netty/go-netty/utils/pool/pbytes"

	"verifharness/mock"
	"verifharness/sched"
)

type OpSpec struct {
	Kind   string `json:"kind"`   // W1 Wv CW1 CWv WW
	Ctx    string `json:"ctx"`    // bg dead mortal
	Size   int    `json:"size"`   // payload size
	Parts  int    `json:"parts"`  // number of slices for vectored kinds
	Chunks []int  `json:"chunks"` // RF/MR/MT: sizes of the low-level writes the call consists of
}

type WriterSpec struct {
	Name string   `json:"name"`
	Ops  []OpSpec `json:"ops"`
}

type CloserSpec struct {
	Name string `json:"name"`
	Arg  string `json:"arg"` // nil e1 e2 e3
}

type RandomSpec struct {
	Seed      int64   `json:"seed"`
	Policy    string  `json:"policy"` // uniform pct window
	FaultProb float64 `json:"fault_prob"`
	CancelPr  float64 `json:"cancel_prob"`
	PCancelPr float64 `json:"pcancel_prob"`
	Depth     int     `json:"depth"`
}

type ChanCase struct {
	ID         string       `json:"id"`
	QSize      int          `json:"qsize"`
	Until      bool         `json:"until"`
	Writers    []WriterSpec `json:"writers"`
	Closers    []CloserSpec `json:"closers"`
	Serve      string       `json:"serve"` // "pre": channel already active, reader parked; "full": serve + read loop scheduled
	Reads      int          `json:"reads"`
	MaxFault   int          `json:"max_faults"`
	Senders    []string     `json:"senders"`
	Schedule   [][]string   `json:"schedule"` // [kind, proc]
	Random     *RandomSpec  `json:"random"`
	Seed       int64        `json:"seed"`
	MaxSteps   int          `json:"max_steps"`
	NoTrace    bool         `json:"no_trace"`
	ReadCloses []int        `json:"read_closes"` // read numbers at which the inbound handler closes the channel itself
	Scribble   bool         `json:"scribble"`    // C10: after every step another pool user obtains and overwrites pooled buffers of every size class
	Swallow    bool         `json:"swallow"`     // the probe's exception handler consumes every exception
	CodecKind  string       `json:"codec"`       // "delim": text codec + delimiter codec ("\x00"); "lf": 2-byte length-field codec; wire parsed into frames
	Codec      bool         `json:"-"`
	PinPool    bool         `json:"pin_pool"` // one P, no GC (deterministic sync.Pool) without the scribbling pool user
	WBuf       int          `json:"wbuf"`     // >0: every transport call is also run through transport.NewTransport(conn, 0, wbuf) over a recording connection
	Props      []string     `json:"props"`    // which oracles to apply (empty = all)
}

type ChanSt struct {
	Closed  int  `json:"closed"`
	Running int  `json:"running"`
	QLen    int  `json:"qlen"`
	TLog    int  `json:"tlog"`    // payloads handed to the transport
	Flushed int  `json:"flushed"` // payloads flushed
	TClosed bool `json:"tclosed"`
	TCloses int  `json:"tcloses"`
	CtxDone bool `json:"ctxdone"`
	Inact   int  `json:"inact"`
	Act     int  `json:"act"`
	Reads   int  `json:"reads"`
}

type Event struct {
	Case string              `json:"case,omitempty"`
	P    string              `json:"p"`
	A    string              `json:"a"`
	Pcs  map[string]string   `json:"pcs"`
	St   ChanSt              `json:"st"`
	Rets map[string][]string `json:"rets"`
}

type Fail struct {
	Prop string `json:"prop"`
	Key  string `json:"key"`
	Msg  string `json:"msg"`
	Step int    `json:"step"`
}

type ChanResult struct {
	ID         string            `json:"id"`
	Events     []Event           `json:"events,omitempty"`
	Steps      int               `json:"steps"`
	Diverged   int               `json:"diverged"`
	Fails      []Fail            `json:"fails"`
	HarnessErr string            `json:"harness_err,omitempty"`
	Sched      [][]string        `json:"sched"` // the schedule actually executed
	Final      map[string]string `json:"final"`
	Actions    map[string]int    `json:"actions"`
	Dumps      int               `json:"dumps"`
	Polls      int               `json:"polls"`
}

type chunkRun struct {
	op      *opRun
	j       int // 1-based
	data    []byte
	inPos   int // position in the parsed stream (-1 = absent)
	entered int // step index at which the low-level write of this chunk was entered (w.enter released; -1 = not yet)
}

type opRun struct {
	w                string
	idx              int // 1-based
	spec             OpSpec
	payload          []byte
	chunks           []*chunkRun
	accepted         int // chunks that entered the queue so far
	enters           int // low-level writes entered so far
	began            int // step index of the w.enter release (-1 = not begun)
	ret              int // step index at which the call was seen returned (-1 = not yet)
	res              string
	n                int64
	err              error
	callerNil        bool // the call returned a nil error to its caller
	cancelledWaiting bool // its context ended while it was parked waiting for queue space
	inPos            int  // position in the parsed stream (-1 = absent)
	touched          bool // the writer itself called the transport during this op (sync mode)
	hadExc           bool // an exception was raised on the writer's goroutine during this (message) op
	issued           int  // step during which the writer made the call (it may return without ever reaching a gate)
}

type probe struct {
	w *chanWorld
}

type chanWorld struct {
	mapMu    sync.Mutex // guards the maps written by process goroutines (several may run at once after a wake-up)
	c        *ChanCase
	s        *sched.Sched
	tr       *mock.Transport
	ex       *mock.Executor
	ch       netty.Channel
	ops      map[string][]*opRun
	byID     map[byte]*chunkRun
	rets     map[string][]string
	cancels  map[string]context.CancelFunc
	closeErr map[string]error
	step     int

	actives      int
	activeStep   int
	inactives    []error
	reads        int
	firstRead    int
	serveRet     int
	closeRetStep int // first step after which some Close call had returned
	winner       string
	winnerRet    int
	closeInvoked int // step at which the winning closer made its first step
	okAtClose    []*opRun
	winnerPolls  int
	firstPollAt  time.Time // when the Close call that took effect began to wait for the sender
	graceChecked bool
	winnerDrains bool // the Close call that took effect has taken over the sender role (it stood at a sender gate)
	faultsUsed   int
	closersDone  map[string]bool

	accOrder              []*chunkRun       // chunks in the order their packet entered the queue (observed)
	prevLoc               map[string]string // writer -> location after the previous step
	parsedOff             int
	parsed                []*chunkRun
	fails                 []Fail
	failKeys              map[string]bool
	ctxErrSeen            map[string]bool
	fatalFault            string
	rCloseCalls           int
	rFirstCloseWasHandler bool
	parentCancel          context.CancelFunc
	parentDone            bool
	excOn                 map[string]error
	curMX                 map[string]bool // writers currently inside an MX call
	lowErr                map[string]error
	exceptions            []error
}

func (p probe) HandleActive(ctx netty.ActiveContext) {
	p.w.actives++
	p.w.activeStep = p.w.step
	ctx.HandleActive()
}

func (p probe) HandleRead(ctx netty.InboundContext, message netty.Message) {
	r := message.(io.Reader)
	buf := make([]byte, 256)
	n, err := r.Read(buf)
	if err != nil && n == 0 {
		panic(err)
	}
	p.w.reads++
	if p.w.firstRead < 0 {
		p.w.firstRead = p.w.step
	}
	for _, k := range p.w.c.ReadCloses {
		if k == p.w.reads {
			// Close from a handler, inside the read loop
			p.w.closeErr["R"] = errHandlerClose
			if p.w.rCloseCalls == 0 {
				p.w.rFirstCloseWasHandler = true
			}
			ctx.Close(errHandlerClose)
		}
	}
}

// HandleException: an exception raised on a writer goroutine (a failed low-level write under
// Channel.Write) is recorded and swallowed; everything else goes on to the tail handler,
// which closes the channel.
func (p probe) HandleException(ctx netty.ExceptionContext, ex netty.Exception) {
	if cur := p.w.s.Current(); cur != "" {
		if _, isWriter := p.w.ops[cur]; isWriter {
			p.w.mapMu.Lock()
			p.w.excOn[cur] = ex
			mx := p.w.curMX[cur]
			p.w.mapMu.Unlock()
			if mx {
				// the application's exception handler takes its time: other goroutines may raise exceptions meanwhile
				p.w.s.Gate(p, "h.exc")
			}
			return
		}
	}
	p.w.exceptions = append(p.w.exceptions, ex)
	if p.w.c.Swallow {
		return
	}
	ctx.HandleException(ex)
}

// HandleWrite does what the head handler does for a []byte message and records the result
// of the low-level write per process (Channel.Write itself reports nil either way).
func (p probe) HandleWrite(ctx netty.OutboundContext, message netty.Message) {
	b, ok := message.([]byte)
	if !ok || p.w.c.Codec {
		ctx.HandleWrite(message)
		return
	}
	n, err := ctx.Channel().Write1(b)
	if cur := p.w.s.Current(); cur != "" {
		p.w.mapMu.Lock()
		if err != nil {
			p.w.lowErr[cur] = err
		} else if n != len(b) {
			p.w.lowErr[cur] = io.ErrShortWrite
		}
		p.w.mapMu.Unlock()
	}
	if err != nil {
		panic(err)
	}
}

func (p probe) HandleInactive(ctx netty.InactiveContext, ex netty.Exception) {
	p.w.inactives = append(p.w.inactives, ex)
	ctx.HandleInactive(ex)
}

// present: every non-empty chunk of the call is on the transport
func (o *opRun) present() bool {
	for _, c := range o.chunks {
		if len(c.data) > 0 && c.inPos < 0 {
			return false
		}
	}
	return true
}

// flushedAll: every byte of the call has been flushed (a Flush that fails after a successful Write leaves the
// bytes on the transport; on a channel that is closing the failure is not reported to anybody)
func (w *chanWorld) flushedAll(o *opRun) bool {
	_, fl, _ := w.tr.Lens()
	off := 0
	end := 0
	for _, ck := range w.parsed {
		off += len(ck.data)
		if ck.op == o {
			end = off
		}
	}
	return end <= fl
}

func (o *opRun) anyPresent() bool {
	for _, c := range o.chunks {
		if len(c.data) > 0 && c.inPos >= 0 {
			return true
		}
	}
	return false
}

func (o *opRun) multi() bool { return len(o.chunks) > 1 }

func isMsgKind(k string) bool {
	switch k {
	case "M", "MR", "MT", "MV", "MB", "MD", "MS", "MX":
		return true
	}
	return false
}

// chunkReader yields one chunk per Read (ReadFrom asks for up to 1024 bytes at a time).
type chunkReader struct {
	chunks [][]byte
	i      int
}

func (r *chunkReader) Read(p []byte) (int, error) {
	if r.i >= len(r.chunks) {
		return 0, io.EOF
	}
	n := copy(p, r.chunks[r.i])
	r.i++
	return n, nil
}

// chunkWriterTo writes one chunk per Write call (an io.WriterTo message that is not also a reader).
type chunkWriterTo struct{ chunks [][]byte }

func (c chunkWriterTo) WriteTo(w io.Writer) (int64, error) {
	var total int64
	for _, ch := range c.chunks {
		n, err := w.Write(ch)
		total += int64(n)
		if err != nil {
			return total, err
		}
	}
	return total, nil
}

var errHandlerClose = errors.New("close-h1")

// gatedCtx is a live context whose Done() is a scheduler gate: the goroutine can be held while the
// select statement is evaluating its cases, i.e. after the hook before the select and before the
// select's choice.
type gatedCtx struct{ s *sched.Sched }

var neverDone = make(chan struct{})

func (g gatedCtx) Deadline() (time.Time, bool)       { return time.Time{}, false }
func (g gatedCtx) Done() <-chan struct{}             { g.s.Gate(g, "w.ctxdone"); return neverDone }
func (g gatedCtx) Err() error                        { return nil }
func (g gatedCtx) Value(key interface{}) interface{} { return nil }

func payloadFor(seed int64, id byte, size int) []byte {
	b := make([]byte, size)
	if size == 0 {
		return b
	}
	r := rand.New(rand.NewSource(seed*7919 + int64(id)))
	r.Read(b)
	b[0] = id
	// keep id bytes out of the body so that a payload never starts inside another
	for i := 1; i < size; i++ {
		if b[i] < 64 {
			b[i] += 64
		}
	}
	return b
}

func classify(n int64, want int, err error) string {
	switch {
	case err == nil && int(n) == want:
		return "ok"
	case err == nil:
		return "zero"
	case errors.Is(err, netty.ErrAsyncNoSpace):
		return "nospace"
	case errors.Is(err, context.Canceled), errors.Is(err, context.DeadlineExceeded):
		return "ctx"
	case errors.Is(err, mock.ErrInjected):
		return "terr"
	}
	var ne *mock.NetErr
	if errors.As(err, &ne) {
		return "terr"
	}
	return "closed"
}

func (w *chanWorld) fail(prop, key, msg string) {
	k := prop + "/" + key
	if w.failKeys[k] {
		return
	}
	w.failKeys[k] = true
	w.fails = append(w.fails, Fail{Prop: prop, Key: key, Msg: msg, Step: w.step})
}

func splitParts(p []byte, parts int) [][]byte {
	if parts < 1 {
		parts = 1
	}
	out := make([][]byte, 0, parts)
	n := len(p)
	for i := 0; i < parts; i++ {
		lo := n * i / parts
		hi := n * (i + 1) / parts
		out = append(out, p[lo:hi])
	}
	return out
}

func (w *chanWorld) writerMain(ws WriterSpec) func() {
	return func() {
		for _, op := range w.ops[ws.Name] {
			op.issued = w.step
			buf := append([]byte(nil), op.payload...)
			var n int64
			var err error
			ctx := context.Background()
			switch op.spec.Ctx {
			case "dead":
				c, cancel := context.WithCancel(context.Background())
				cancel()
				ctx = c
			case "gated":
				ctx = gatedCtx{w.s}
			case "far":
				// a context with a deadline that never arrives during the run
				c, cancel := context.WithDeadline(context.Background(), time.Now().Add(time.Hour))
				defer cancel()
				ctx = c
			case "mortal":
				c, cancel := context.WithCancel(context.Background())
				w.mapMu.Lock()
				if w.ctxErrSeen[ws.Name] {
					cancel()
				}
				w.cancels[ws.Name] = cancel
				w.mapMu.Unlock()
				ctx = c
			}
			switch op.spec.Kind {
			case "M":
				w.mapMu.Lock()
				delete(w.excOn, ws.Name)
				w.mapMu.Unlock()
				w.mapMu.Lock()
				delete(w.lowErr, ws.Name)
				w.mapMu.Unlock()
				err = w.ch.Write(buf)
				if err == nil {
					n = int64(len(buf))
				}
			case "MV":
				w.mapMu.Lock()
				delete(w.excOn, ws.Name)
				w.mapMu.Unlock()
				err = w.ch.Write(splitParts(buf, op.spec.Parts))
				if err == nil {
					n = int64(len(buf))
				}
			case "MB":
				w.mapMu.Lock()
				delete(w.excOn, ws.Name)
				w.mapMu.Unlock()
				err = w.ch.Write(bytes.NewBuffer(buf))
				if err == nil {
					n = int64(len(buf))
				}
			case "MD", "MS":
				// through the shipped codecs: MD = []byte via the delimiter codec (vectored write),
				// MS = string via text codec + delimiter codec (a reader: body, then delimiter)
				w.mapMu.Lock()
				delete(w.excOn, ws.Name)
				w.mapMu.Unlock()
				if op.spec.Kind == "MD" {
					err = w.ch.Write(buf)
				} else {
					err = w.ch.Write(string(buf))
				}
				if err == nil {
					n = int64(len(buf))
				}
			case "MX":
				// a message no handler converts: the head handler panics, the call's recover guard raises an exception
				w.mapMu.Lock()
				delete(w.excOn, ws.Name)
				w.curMX[ws.Name] = true
				w.mapMu.Unlock()
				err = w.ch.Write(struct{ Unsupported int }{1})
				w.mapMu.Lock()
				delete(w.curMX, ws.Name)
				w.mapMu.Unlock()
			case "RF", "MR", "MT":
				var cs [][]byte
				off := 0
				for _, c := range op.chunks {
					cs = append(cs, buf[off:off+len(c.data)])
					off += len(c.data)
				}
				switch op.spec.Kind {
				case "RF":
					n, err = w.ch.ReadFrom(&chunkReader{chunks: cs})
				case "MR":
					w.mapMu.Lock()
					delete(w.excOn, ws.Name)
					w.mapMu.Unlock()
					err = w.ch.Write(&chunkReader{chunks: cs})
				default:
					w.mapMu.Lock()
					delete(w.excOn, ws.Name)
					w.mapMu.Unlock()
					err = w.ch.Write(chunkWriterTo{cs})
				}
				if op.spec.Kind != "RF" && err == nil {
					n = int64(len(buf))
				}
			case "W1":
				var m int
				m, err = w.ch.Write1(buf)
				n = int64(m)
			case "WW":
				var m int
				m, err = w.ch.Writer().Write(buf)
				n = int64(m)
			case "Wv":
				n, err = w.ch.Writev(splitParts(buf, op.spec.Parts))
			case "CW1":
				var m int
				m, err = w.ch.CtxWrite1(ctx, buf)
				n = int64(m)
			case "CWv":
				n, err = w.ch.CtxWritev(ctx, splitParts(buf, op.spec.Parts))
			default:
				panic("unknown op kind " + op.spec.Kind)
			}
			op.n, op.err = n, err
			op.callerNil = err == nil
			op.res = classify(n, len(op.payload), err)
			if isMsgKind(op.spec.Kind) {
				w.mapMu.Lock()
				op.hadExc = w.excOn[ws.Name] != nil
				w.mapMu.Unlock()
			}
			if op.spec.Kind == "MX" && op.res == "ok" {
				if op.hadExc {
					op.res = "mexc"
				} else {
					// Write returned nil and no exception event reached the handlers: the panic was lost
					op.res = "lost"
					w.fail("C07", "panic-not-delivered", fmt.Sprintf("%s.%d: the head handler's panic for an unsupported message raised no exception event although the channel was open when the call began", op.w, op.idx))
				}
			}
			if op.spec.Kind == "M" && err == nil {
				w.mapMu.Lock()
				ex := w.lowErr[ws.Name]
				w.mapMu.Unlock()
				if ex != nil {
					// Write returned nil although the low-level write failed (exception raised)
					op.res = "mexc"
					op.err = ex
					err = ex
				}
			}
			// the caller reuses its buffer immediately (snapshot semantics)
			for i := range buf {
				buf[i] = 0xEE
			}
			w.mapMu.Lock()
			w.rets[ws.Name] = append(w.rets[ws.Name], op.res)
			w.mapMu.Unlock()
		}
	}
}

func closeArg(arg string) error {
	switch arg {
	case "nil":
		return nil
	case "eof": // what a read loop passes on after the peer's half-close
		return io.EOF
	case "ueof":
		return fmt.Errorf("close-wrapped: %w", io.ErrUnexpectedEOF)
	case "neterr":
		return &net.OpError{Op: "read", Net: "tcp", Err: syscall.ECONNRESET}
	case "netclosed":
		return net.ErrClosed
	}
	return fmt.Errorf("close-%s", arg)
}

func (w *chanWorld) state() ChanSt {
	vs := netty.VerifState(w.ch)
	_, _, closes := w.tr.Lens()
	w.parse()
	flushed := 0
	_, fl, _ := w.tr.Lens()
	off := 0
	for _, ck := range w.parsed {
		off += len(ck.data)
		if off <= fl {
			flushed++
		}
	}
	return ChanSt{
		Closed: int(vs.Closed), Running: int(vs.Running), QLen: vs.QLen,
		TLog: len(w.parsed), Flushed: flushed, TClosed: w.tr.IsClosed(), TCloses: closes,
		CtxDone: w.ch.Context().Err() != nil, Inact: len(w.inactives), Act: w.actives, Reads: w.reads,
	}
}

// parse consumes new stream bytes into whole chunks, identified by their first byte;
// zero-length chunks never appear in the stream.
func (w *chanWorld) parse() {
	stream, _, _, _ := w.tr.Snapshot()
	if w.c.Codec {
		w.parseFrames(stream)
		return
	}
	for w.parsedOff < len(stream) {
		id := stream[w.parsedOff]
		ck := w.byID[id]
		if ck == nil {
			if id == 0xEE {
				w.fail("C10", "modified/caller-reuse", fmt.Sprintf("the transport received bytes (offset %d) that the caller wrote into its buffer after the write call had returned", w.parsedOff))
			}
			if id == 0xDD {
				w.fail("C10", "modified/pool-user", fmt.Sprintf("the transport received bytes (offset %d) that another user of the buffer pool wrote into a recycled buffer", w.parsedOff))
			}
			w.fail("C01", "garbage", fmt.Sprintf("transport byte %d at offset %d starts no known payload", id, w.parsedOff))
			w.foreignBytes(stream, w.parsedOff, nil, 0)
			w.parsedOff = len(stream)
			return
		}
		op := ck.op
		end := w.parsedOff + len(ck.data)
		if end > len(stream) {
			w.fail("C01", "truncated", fmt.Sprintf("payload %s.%d truncated on the transport at offset %d", op.w, op.idx, w.parsedOff))
			k := 0
			for w.parsedOff+k < len(stream) && stream[w.parsedOff+k] == ck.data[k] {
				k++
			}
			if w.parsedOff+k < len(stream) {
				w.foreignBytes(stream, w.parsedOff+k, ck, k)
			}
			w.parsedOff = len(stream)
			return
		}
		if string(stream[w.parsedOff:end]) != string(ck.data) {
			w.fail("C01", "modified", fmt.Sprintf("payload %s.%d (%s) modified on the transport", op.w, op.idx, op.spec.Kind))
			k := 0
			for k < len(ck.data) && stream[w.parsedOff+k] == ck.data[k] {
				k++
			}
			w.foreignBytes(stream, w.parsedOff+k, ck, k)
			how := "differ from what the caller's buffer held when the call was made"
			for _, b := range stream[w.parsedOff:end] {
				if b == 0xDD {
					how = "were overwritten by another user of the buffer pool before they were sent"
					break
				}
				if b == 0xEE {
					how = "changed when the caller reused its buffer after the call had returned"
					break
				}
			}
			w.fail("C10", "modified/"+op.spec.Kind, fmt.Sprintf("the bytes transmitted for %s.%d (%s, %d bytes) %s", op.w, op.idx, op.spec.Kind, len(ck.data), how))
			if isMsgKind(op.spec.Kind) || op.spec.Kind == "RF" {
				// an accepted carrier (reader, WriterTo, vector, buffer, ...) is sent byte-exact
				w.fail("C14", "carrier-bytes/"+op.spec.Kind, fmt.Sprintf("the bytes transmitted for the %s message %s.%d (%d bytes) %s", op.spec.Kind, op.w, op.idx, len(ck.data), how))
			}
		}
		if ck.inPos >= 0 {
			w.fail("C01", "duplicate", fmt.Sprintf("payload %s.%d transmitted twice", op.w, op.idx))
		} else {
			ck.inPos = len(w.parsed)
		}
		w.parsed = append(w.parsed, ck)
		w.parsedOff = end
	}
}

// foreignBytes explains why the wire at pos does not continue the payload being parsed (cur, matched for k
// bytes; nil = a payload start was expected): body bytes are >= 64 and ids below, and every payload is random,
// so if another payload starts here, or the bytes found here are bytes from the middle of some payload, then
// the bytes of one message were split or the bytes of two messages are mixed - which is what C09 excludes.
func (w *chanWorld) foreignBytes(stream []byte, pos int, cur *chunkRun, k int) {
	who, kind := "a payload start was expected", "?"
	if cur != nil {
		who = fmt.Sprintf("%s.%d (%s, %d bytes) matched for %d bytes", cur.op.w, cur.op.idx, cur.op.spec.Kind, len(cur.data), k)
		kind = cur.op.spec.Kind
	}
	if other := w.byID[stream[pos]]; other != nil && k > 0 {
		w.fail("C09", "carrier="+kind+"/split", fmt.Sprintf("wire offset %d: %s, then the payload of %s.%d starts: the bytes of one message are split by another", pos, who, other.op.w, other.op.idx))
		return
	}
	n := len(stream) - pos
	if n > 8 {
		n = 8
	}
	if n < 4 {
		return
	}
	win := stream[pos : pos+n]
	for _, y := range w.byID {
		if at := bytes.Index(y.data, win); at > 0 && !(y == cur && at == k) {
			if cur == nil {
				kind = y.op.spec.Kind
			}
			w.fail("C09", "carrier="+kind+"/mixed", fmt.Sprintf("wire offset %d: %s, but the wire continues with bytes %d.. of %s.%d: bytes of different messages are mixed", pos, who, at, y.op.w, y.op.idx))
			return
		}
	}
}

// parseFrames (codec mode): the wire is a sequence of frames terminated by the delimiter; every
// complete frame must be exactly the body of one message
func (w *chanWorld) parseFrames(stream []byte) {
	if w.c.CodecKind == "lf" {
		w.parseLF(stream)
		return
	}
	for {
		rest := stream[w.parsedOff:]
		k := bytes.IndexByte(rest, 0)
		if k < 0 {
			return
		}
		frm := rest[:k]
		w.parsedOff += k + 1
		var ck *chunkRun
		if len(frm) > 0 {
			ck = w.byID[frm[0]]
		}
		if ck == nil || string(ck.data) != string(frm) {
			who := "?"
			if ck != nil {
				who = fmt.Sprintf("%s.%d (%s)", ck.op.w, ck.op.idx, ck.op.spec.Kind)
			}
			// a []byte message leaves the delimiter codec as one vectored write; only the reader
			// produced for a string message (body, then delimiter) is sent in several writes
			kind := "MS"
			if ck != nil && ck.op.spec.Kind == "MD" && !w.hasKind("MS") {
				kind = "MD"
			}
			w.fail("C09", "carrier="+kind+"/codec-frame", fmt.Sprintf("wire frame #%d (%d bytes, starts like %s) is not the body of one message: bytes of different messages interleaved", len(w.parsed), len(frm), who))
			continue
		}
		if ck.inPos >= 0 {
			w.fail("C01", "duplicate", fmt.Sprintf("message %s.%d framed twice", ck.op.w, ck.op.idx))
		} else {
			ck.inPos = len(w.parsed)
		}
		w.parsed = append(w.parsed, ck)
	}
}

// parseLF (length-field codec mode): 2-byte big-endian length, then that many body bytes; every
// complete frame must be exactly one message, and its header must state that message's length
func (w *chanWorld) parseLF(stream []byte) {
	for {
		rest := stream[w.parsedOff:]
		if len(rest) < 3 {
			return
		}
		// the body starts with the message id byte: find the message first, then judge the header
		ck := w.byID[rest[2]]
		if ck == nil {
			w.fail("C09", "carrier=MD/codec-frame", fmt.Sprintf("wire offset %d: a length header is not followed by the start of a message", w.parsedOff))
			w.parsedOff = len(stream)
			return
		}
		if len(rest) < 2+len(ck.data) {
			return
		}
		hv := int(binary.BigEndian.Uint16(rest[:2]))
		if hv != len(ck.data) {
			w.fail("C04", "encoder-header/concurrent", fmt.Sprintf("message %s.%d (%d bytes) was framed with length header %d under concurrent writers", ck.op.w, ck.op.idx, len(ck.data), hv))
		}
		if string(rest[2:2+len(ck.data)]) != string(ck.data) {
			w.fail("C09", "carrier=MD/codec-frame", fmt.Sprintf("the body after the header of %s.%d is not that message: bytes of different messages interleaved", ck.op.w, ck.op.idx))
		}
		if ck.inPos < 0 {
			ck.inPos = len(w.parsed)
		}
		w.parsed = append(w.parsed, ck)
		w.parsedOff += 2 + len(ck.data)
	}
}

func (w *chanWorld) hasKind(k string) bool {
	for _, ws := range w.c.Writers {
		for _, op := range ws.Ops {
			if op.Kind == k {
				return true
			}
		}
	}
	return false
}

func (w *chanWorld) allOps() []*opRun {
	var out []*opRun
	for _, ws := range w.c.Writers {
		out = append(out, w.ops[ws.Name]...)
	}
	return out
}

// oracleStep evaluates the always-properties on what the real code did so far.
func (w *chanWorld) oracleStep(noFault bool) {
	if e := w.tr.SinkError(); e != "" {
		w.fail("C01", "wire-order", "write-buffered transport wrapper: "+e)
	}
	w.parse()
	ops := w.allOps()
	batchCap := w.c.QSize/2 + 1
	unsent := 0
	for _, op := range ops {
		if op.anyPresent() && op.began < 0 {
			w.fail("C01", "phantom", fmt.Sprintf("payload %s.%d on the transport before its call began", op.w, op.idx))
		}
		if op.ret >= 0 && !op.multi() && op.anyPresent() {
			switch op.res {
			case "nospace", "ctx", "closed", "zero":
				w.fail("C01", "err-bytes/"+op.res, fmt.Sprintf("%s.%d (%s) returned %s (%v) but its bytes were transmitted", op.w, op.idx, op.spec.Kind, op.res, op.err))
				if w.c.QSize > 0 {
					// back-pressure: a call that gives up (queue full, context ended, channel closed) transmits nothing
					w.fail("C18", "error-but-transmitted/"+op.res, fmt.Sprintf("%s.%d (%s) returned %s (%v) but its payload went through the queue and was transmitted", op.w, op.idx, op.spec.Kind, op.res, op.err))
				}
			}
		}
		if op.ret >= 0 && op.res == "ok" && !op.present() {
			unsent++
		}
		// C09: the low-level writes of one call are contiguous on the transport
		lo, hi, cnt := -1, -1, 0
		for _, ck := range op.chunks {
			if ck.inPos >= 0 {
				if lo < 0 || ck.inPos < lo {
					lo = ck.inPos
				}
				if ck.inPos > hi {
					hi = ck.inPos
				}
				cnt++
			}
		}
		if cnt > 0 && hi-lo+1 != cnt && isMsgKind(op.spec.Kind) {
			other := w.parsed[lo+1]
			for i := lo; i <= hi; i++ {
				if w.parsed[i].op != op {
					other = w.parsed[i]
					break
				}
			}
			w.fail("C09", "carrier="+op.spec.Kind+"/multi-write", fmt.Sprintf("the %d low-level writes of %s.%d (%s) are interleaved on the wire with %s.%d", len(op.chunks), op.w, op.idx, op.spec.Kind, other.op.w, other.op.idx))
		}
	}
	// (payloads of a batch whose transport write failed are lost, not waiting: the bound is about a working transport)
	if w.c.QSize > 0 && noFault && unsent > w.c.QSize+batchCap {
		w.fail("C18", "bound", fmt.Sprintf("%d payloads accepted but unsent > queue %d + batch %d", unsent, w.c.QSize, batchCap))
	}
	// order: per writer, and returned-before-began
	for i, a := range w.parsed {
		for _, b := range w.parsed[i+1:] {
			if a.op.w == b.op.w && (a.op.idx > b.op.idx || (a.op == b.op && a.j > b.j)) {
				w.fail("C01", "writer-order", fmt.Sprintf("%s.%d/%d transmitted before %s.%d/%d", a.op.w, a.op.idx, a.j, b.op.w, b.op.idx, b.j))
			}
			if b.op.ret >= 0 && a.op.began >= 0 && b.op.ret < a.op.began {
				w.fail("C01", "real-time-order", fmt.Sprintf("%s.%d returned before %s.%d began but is transmitted after it", b.op.w, b.op.idx, a.op.w, a.op.idx))
			}
		}
	}
	// acceptance order (queued channel): the transport log is a prefix of the payloads in the order
	// they entered the queue
	if noFault && w.c.QSize > 0 {
		for i, ck := range w.parsed {
			if i >= len(w.accOrder) {
				break
			}
			if w.accOrder[i] != ck {
				a := w.accOrder[i]
				w.fail("C01", "acceptance-order", fmt.Sprintf("transport position %d holds %s.%d but %s.%d was accepted %d-th (lost, reordered or overtaken)", i, ck.op.w, ck.op.idx, a.op.w, a.op.idx, i))
				break
			}
		}
	}
	// prefix: an accepted payload is not overtaken by one that began after it returned
	if noFault {
		for _, a := range ops {
			if a.ret < 0 || a.res != "ok" || a.present() {
				continue
			}
			for _, b := range w.parsed {
				if b.op.began > a.ret {
					w.fail("C01", "prefix", fmt.Sprintf("%s.%d (began after %s.%d returned ok) was transmitted while %s.%d is missing", b.op.w, b.op.idx, a.w, a.idx, a.w, a.idx))
				}
			}
		}
	}
	// once a Close call has returned the channel is inactive for good: every write entry point tests exactly this
	if w.closeRetStep >= 0 && w.ch.IsActive() {
		w.fail("C11", "active-after-close", "IsActive() is true although a Close call has returned: every write entry point passes its closed test again")
		w.fail("C05", "active-after-close", "IsActive() is true although a Close call has returned")
	}
	// C11: calls begun after a Close call had returned
	if w.closeRetStep >= 0 {
		for _, op := range ops {
			began := op.began
			if began < 0 && op.ret >= 0 {
				began = op.issued // the call returned without passing any gate
			}
			if began > w.closeRetStep {
				if op.anyPresent() {
					w.fail("C11", "bytes-after-close/"+op.spec.Kind, fmt.Sprintf("%s.%d (%s) began after Close returned and its bytes reached the transport", op.w, op.idx, op.spec.Kind))
				}
				if op.ret >= 0 && op.callerNil {
					w.fail("C11", "nil-error/"+op.spec.Kind+"/"+w.winnerArg(), fmt.Sprintf("%s.%d (%s) began after Close(%s) returned and reported (%d, nil)", op.w, op.idx, op.spec.Kind, w.winnerArg(), op.n))
				}
			}
			// a call made of several low-level writes (ReadFrom chunks, reader / WriterTo messages): every
			// low-level write entered after Close had returned must fail too
			if len(op.chunks) > 1 && op.began <= w.closeRetStep {
				for _, ck := range op.chunks {
					if ck.entered > w.closeRetStep {
						if ck.inPos >= 0 {
							w.fail("C11", "bytes-after-close/"+op.spec.Kind+"/chunk", fmt.Sprintf("chunk %d of %s.%d (%s) was written after Close returned and its bytes reached the transport", ck.j, op.w, op.idx, op.spec.Kind))
						}
						if op.ret >= 0 && op.res == "ok" {
							w.fail("C11", "nil-error/"+op.spec.Kind+"/chunk", fmt.Sprintf("%s.%d (%s) reported success (%d bytes) although its chunk %d was written after Close(%s) had returned", op.w, op.idx, op.spec.Kind, op.n, ck.j, w.winnerArg()))
						}
					}
				}
			}
		}
	}
	// C05 always-parts
	_, _, closes := w.tr.Lens()
	if closes > 1 {
		w.fail("C05", "transport-closed-twice", fmt.Sprintf("transport Close called %d times", closes))
	}
	if len(w.inactives) > 1 {
		w.fail("C05", "inactive-twice", fmt.Sprintf("inactive delivered %d times", len(w.inactives)))
	}
	if w.actives > 1 {
		w.fail("C05", "active-twice", "active delivered more than once")
	}
	if w.reads > 0 && (w.actives != 1 || w.activeStep > w.firstRead) {
		w.fail("C05", "read-before-active", "a read was delivered before active completed")
	}
	if w.serveRet >= 0 && w.actives != 1 {
		w.fail("C05", "serve-before-active", "serveChannel returned before active was delivered")
	}
	if w.s.Loc("R") == "done" && w.ch.IsActive() {
		w.fail("C05", "readloop-exit-without-close", "the read loop has terminated but the channel is still active (never closed)")
	}
	if w.closeRetStep >= 0 && w.ch.IsActive() {
		w.fail("C05", "active-after-close", "IsActive() is true after a Close call returned")
	}
	if w.winner == "R" && w.closeErr["R"] == errHandlerClose && len(w.inactives) == 1 && w.reads >= 1 {
		// Close issued by a handler inside the read loop took effect: inactive carries its error
		if hw := w.handlerCloseWon(); hw && w.inactives[0] != errHandlerClose {
			w.fail("C05", "inactive-error/handler", fmt.Sprintf("inactive carried %v, the Close that took effect was issued by a handler with %v", w.inactives[0], errHandlerClose))
		}
	}
	if w.winnerRet >= 0 {
		if w.ch.Context().Err() == nil {
			w.fail("C05", "ctx-after-close", "channel context not cancelled after the effective Close returned")
		}
		if len(w.inactives) != 1 {
			w.fail("C05", "inactive-count", fmt.Sprintf("inactive delivered %d times after the effective Close returned", len(w.inactives)))
		} else if want := w.closeErr[w.winner]; w.inactives[0] != want {
			w.fail("C05", "inactive-error", fmt.Sprintf("inactive carried %v, the effective Close was given %v", w.inactives[0], want))
		}
		if closes != 1 {
			w.fail("C05", "transport-close-count", fmt.Sprintf("transport closed %d times after the effective Close returned", closes))
		}
	}
}

// handlerCloseWon: the winning Close of process R was the handler's (not the loop's own Close(nil) or
// the exception path): true iff the handler close happened before any other Close call of R
func (w *chanWorld) handlerCloseWon() bool {
	return w.rCloseCalls == 1 || w.rFirstCloseWasHandler
}

func (w *chanWorld) winnerArg() string {
	for _, c := range w.c.Closers {
		if c.Name == w.winner {
			return c.Arg
		}
	}
	return w.winner
}

func (w *chanWorld) wants(prop string) bool {
	if len(w.c.Props) == 0 {
		return true
	}
	for _, p := range w.c.Props {
		if p == prop {
			return true
		}
	}
	return false
}

func runChanCase(c *ChanCase) *ChanResult {
	res := &ChanResult{ID: c.ID, Actions: map[string]int{}, Final: map[string]string{}}
	if c.Scribble || c.PinPool {
		// one P, no GC: a buffer put into sync.Pool is what the next Get of that class returns
		runtime.GOMAXPROCS(1)
		defer debug.SetGCPercent(debug.SetGCPercent(-1))
	}
	s := sched.New()
	w := &chanWorld{
		c: c, s: s, ops: map[string][]*opRun{}, byID: map[byte]*chunkRun{}, rets: map[string][]string{},
		cancels: map[string]context.CancelFunc{}, closeErr: map[string]error{}, failKeys: map[string]bool{},
		firstRead: -1, serveRet: -1, closeRetStep: -1, winnerRet: -1, closeInvoked: -1,
		closersDone: map[string]bool{}, ctxErrSeen: map[string]bool{}, excOn: map[string]error{}, curMX: map[string]bool{}, lowErr: map[string]error{}, prevLoc: map[string]string{},
	}
	netty.VerifHook = func(obj interface{}, point string) { s.Gate(obj, point) }
	w.tr = mock.NewTransport(s)
	if c.WBuf > 0 {
		w.tr.SinkConn = &mock.Conn{}
		w.tr.Sink = transport.NewTransport(w.tr.SinkConn, 0, c.WBuf)
	}
	w.ex = mock.NewExecutor(s)
	for i := 0; i < c.Reads; i++ {
		w.tr.Feed(mock.ReadItem{Data: []byte{byte(i + 1)}})
	}
	pl := netty.NewPipeline()
	c.Codec = c.CodecKind != ""
	switch c.CodecKind {
	case "delim":
		pl.AddLast(frame.DelimiterCodec(1<<20, "\x00", true), format.TextCodec())
		c.NoTrace = true
	case "lf":
		pl.AddLast(frame.LengthFieldCodec(binary.BigEndian, 1<<20, 0, 2, 0, 2))
		c.NoTrace = true
	}
	pl.AddLast(probe{w})
	var factory netty.ChannelFactory
	if c.QSize > 0 {
		factory = netty.NewAsyncWriteChannel(c.QSize, c.Until)
	} else {
		factory = netty.NewChannel()
	}
	parentCtx, parentCancel := context.WithCancel(context.Background())
	w.parentCancel = parentCancel
	w.ch = factory(1, parentCtx, pl, w.tr, w.ex)
	if c.Serve != "full" {
		// the channel is already active: serve it un-gated until the read loop
		// is parked in Transport.Read
		s.Free = true
		s.Go("V", func() { pl.ServeChannel(w.ch) })
		if err := s.Settle(); err != nil {
			res.HarnessErr = err.Error()
			return res
		}
		if s.Loc("R") != "parked" || s.Loc("V") != "done" {
			res.HarnessErr = fmt.Sprintf("pre-serve did not park the reader: %v", s.Locs())
			return res
		}
		s.Free = false
		w.serveRet = -2
	}
	var id byte = 1
	for _, ws := range c.Writers {
		w.rets[ws.Name] = []string{}
		for i, op := range ws.Ops {
			o := &opRun{w: ws.Name, idx: i + 1, spec: op, began: -1, ret: -1}
			sizes := []int{op.Size}
			if len(op.Chunks) > 0 && (op.Kind == "RF" || op.Kind == "MR" || op.Kind == "MT") {
				sizes = op.Chunks
			}
			for j, sz := range sizes {
				ck := &chunkRun{op: o, j: j + 1, data: payloadFor(c.Seed, id, sz), inPos: -1, entered: -1}
				o.chunks = append(o.chunks, ck)
				o.payload = append(o.payload, ck.data...)
				w.byID[id] = ck
				id++
				if id >= 64 {
					res.HarnessErr = "too many payload chunks"
					return res
				}
			}
			w.ops[ws.Name] = append(w.ops[ws.Name], o)
		}
	}
	// start the processes; each runs freely to its first gate
	for _, ws := range c.Writers {
		if len(ws.Ops) > 0 {
			s.Go(ws.Name, w.writerMain(ws))
		}
	}
	for _, cs := range c.Closers {
		cs := cs
		w.closeErr[cs.Name] = closeArg(cs.Arg)
		s.Go(cs.Name, func() { w.ch.Close(w.closeErr[cs.Name]) })
	}
	if c.Serve == "full" {
		s.Go("V", func() {
			s.Gate(w, "v.start")
			pl.ServeChannel(w.ch)
		})
	}
	if err := s.Settle(); err != nil {
		res.HarnessErr = err.Error()
		return res
	}

	maxSteps := c.MaxSteps
	if maxSteps == 0 {
		maxSteps = 400
	}
	var rnd *rand.Rand
	if c.Random != nil {
		rnd = rand.New(rand.NewSource(c.Random.Seed))
	}
	prio := map[string]int{}
	schedIdx := 0
	lastRetLen := map[string]int{}
	for w.step = 0; w.step < maxSteps; w.step++ {
		atGate := s.AtGate()
		if c.Serve == "full" && s.Loc("V") == "v.start" {
			// nobody has the channel before serveChannel is called
			atGate = []string{"V"}
		}
		for name, val := range s.Crashed {
			w.fail("C07", "goroutine-crashed", fmt.Sprintf("a panic escaped from goroutine %s and would have terminated the process: %s", name, val))
		}
		// choose the next move
		kind, proc := "", ""
		for schedIdx < len(c.Schedule) {
			e := c.Schedule[schedIdx]
			schedIdx++
			if e[0] == "cancel" {
				kind, proc = "cancel", e[1]
				break
			}
			if e[0] == "pcancel" {
				kind, proc = "pcancel", ""
				break
			}
			if e[0] == "pooluser" {
				kind, proc = "pooluser", ""
				break
			}
			if contains(atGate, e[1]) {
				kind, proc = e[0], e[1]
				break
			}
			res.Diverged++
		}
		if kind == "" {
			if len(atGate) == 0 {
				break
			}
			// livelock: the only goroutines that can move are Close calls polling for the sender role, the role is
			// taken, and nobody who could give it back is alive
			if w.closeLivelock(atGate) {
				break
			}
			if c.Random != nil && c.Random.Policy == "wedge" {
				// a peer that does not read: transport writes and flushes do not return before the transport is closed
				var movable []string
				for _, n := range atGate {
					loc := s.Loc(n)
					if (loc == "t.write" || loc == "t.writev" || loc == "t.flush") && !w.tr.IsClosed() {
						continue
					}
					movable = append(movable, n)
				}
				if len(movable) == 0 {
					w.oracleWedged(atGate)
					break
				}
				atGate = movable
			}
			if rnd != nil {
				kind, proc = w.pickRandom(rnd, atGate, prio)
			} else {
				// completion after the schedule: anybody but a closer that would only busy-poll
				kind, proc = "step", atGate[0]
				for _, n := range atGate {
					if !(s.Loc(n) == "c.poll" && netty.VerifState(w.ch).Running != 0) {
						proc = n
						break
					}
				}
			}
		}
		ev := Event{P: proc}
		if kind == "pooluser" {
			ev.A = "env.pooluser"
			poolScribble()
		} else if kind == "pcancel" {
			ev.A = "env.pcancel"
			w.parentDone = true
			var waitingW []string
			for _, ws := range c.Writers {
				if s.Loc(ws.Name) == "parked" && c.QSize > 0 && c.Until {
					waitingW = append(waitingW, ws.Name)
				}
			}
			w.parentCancel()
			if err := s.Settle(); err != nil {
				res.HarnessErr = err.Error()
				break
			}
			// a blocking-mode writer that was waiting for queue space returns when the channel's own context ends
			for _, n := range waitingW {
				if s.Loc(n) == "parked" {
					w.fail("C18", "channel-end-ignored", fmt.Sprintf("%s keeps waiting for queue space (%s) although the channel's context ended", n, s.ParkedStatus(n)))
				}
			}
		} else if kind == "cancel" {
			ev.A = "env.cancel"
			w.ctxErrSeen[proc] = true
			var waiting *opRun
			if s.Loc(proc) == "parked" {
				for _, op := range w.ops[proc] {
					if op.ret < 0 {
						if op.spec.Ctx == "mortal" && op.began >= 0 {
							waiting = op
						}
						break
					}
				}
			}
			if cancel := w.cancels[proc]; cancel != nil {
				cancel()
			}
			if err := s.Settle(); err != nil {
				res.HarnessErr = err.Error()
				break
			}
			if waiting != nil {
				waiting.cancelledWaiting = true
				if s.Loc(proc) == "parked" && len(w.rets[proc]) < waiting.idx {
					w.fail("C18", "cancel-ignored", fmt.Sprintf("%s.%d (%s) keeps waiting for queue space although its context ended", proc, waiting.idx, waiting.spec.Kind))
				}
			}
		} else {
			gate := s.Loc(proc)
			ev.A = gate
			if kind == "fault" {
				if gate == "t.write" || gate == "t.writev" || gate == "t.flush" || gate == "t.read" {
					ev.A = gate + "!fail"
					w.tr.FailNext = mock.ErrInjected
					w.faultsUsed++
					if _, isWriter := w.ops[proc]; !isWriter && netty.VerifState(w.ch).Closed == 0 && !(c.Swallow && gate == "t.read") {
						// a failing transport call of the sender or the read loop on an open channel
						w.fatalFault = gate + " by " + proc
					}
				} else {
					res.Diverged++
				}
			}
			// bookkeeping before the step
			if gate == "w.enter" || gate == "m.enter" || gate == "rf.enter" {
				for _, op := range w.ops[proc] {
					if op.ret < 0 {
						if op.began < 0 {
							op.began = w.step
						}
						if gate == "w.enter" {
							if op.enters < len(op.chunks) {
								op.chunks[op.enters].entered = w.step
							}
							op.enters++
						}
						break
					}
				}
			}
			if strings.HasPrefix(gate, "t.") {
				for _, op := range w.ops[proc] {
					if op.ret < 0 {
						op.touched = true
						break
					}
				}
			}
			if gate == "c.cas" && proc == "R" {
				w.rCloseCalls++
			}
			if gate == "c.cas" && w.closeInvoked < 0 && netty.VerifState(w.ch).Closed == 0 {
				// this call will win the CAS: Close is "invoked" now
				w.closeInvoked = w.step
				w.winner = proc
				for _, op := range w.allOps() {
					if op.ret >= 0 && op.res == "ok" {
						w.okAtClose = append(w.okAtClose, op)
					}
				}
			}
			if gate == "c.poll" && proc == w.winner {
				if w.winnerPolls == 0 {
					w.firstPollAt = time.Now()
				}
				w.winnerPolls++
			}
			if proc == w.winner && (strings.HasPrefix(gate, "s.") || gate == "t.writev" || gate == "t.flush") {
				w.winnerDrains = true
			}
			if gate == "c.seterr" && proc == w.winner && !w.graceChecked && c.QSize > 0 && !c.Until && w.winnerPolls > 0 && !w.winnerDrains {
				// a bounded-wait Close gave up on a sender that is still busy: the documented grace period is 10 x 100 ms
				// (sleeps can only take longer than asked for, so a shorter wait is the code's doing)
				w.graceChecked = true
				if el := time.Since(w.firstPollAt); el < 900*time.Millisecond {
					w.fail("C06", "grace-period-short", fmt.Sprintf("a bounded-wait Close gave up waiting for the busy sender after %v (%d polls); the documented grace period is 10 x 100 ms", el.Round(time.Millisecond), w.winnerPolls))
				}
			}
			qlenBefore := netty.VerifState(w.ch).QLen
			if gate == "t.close" {
				w.oracleAtTransportClose()
			}
			if err := s.Step(proc); err != nil {
				res.HarnessErr = err.Error()
				break
			}
			// C18: what the select did
			if gate == "w.select" {
				loc := s.Loc(proc)
				if loc == "parked" && !c.Until {
					w.fail("C18", "nonblocking-parked", fmt.Sprintf("%s parked (%s) waiting in non-blocking mode", proc, s.ParkedStatus(proc)))
				}
				if n := len(w.rets[proc]); n > lastRetLen[proc] && w.rets[proc][n-1] == "nospace" && qlenBefore < c.QSize {
					w.fail("C18", "nospace-not-full", fmt.Sprintf("%s got ErrAsyncNoSpace with %d/%d queued", proc, qlenBefore, c.QSize))
				}
			}
		}
		// acceptance order: a writer that now stands before its CAS has just put its packet into the queue
		for _, ws := range c.Writers {
			loc := s.Loc(ws.Name)
			if loc == "w.cas" && w.prevLoc[ws.Name] != "w.cas" {
				for _, op := range w.ops[ws.Name] {
					if op.ret < 0 {
						if op.accepted < len(op.chunks) {
							ck := op.chunks[op.accepted]
							op.accepted++
							if len(ck.data) > 0 {
								w.accOrder = append(w.accOrder, ck)
							}
						}
						break
					}
				}
			}
			w.prevLoc[ws.Name] = loc
			_ = loc
		}
		// exclusive use of the transport's write side (sender role / write lock): two goroutines standing in transport
		// write or flush calls at once can interleave the bytes of different messages on any transport whose vectored
		// write is not one atomic call
		{
			var inIO []string
			for _, n := range s.Names() {
				if l := s.Loc(n); l == "t.write" || l == "t.writev" || l == "t.flush" {
					inIO = append(inIO, n+"@"+l)
				}
			}
			if len(inIO) > 1 {
				w.fail("C09", "concurrent-transport-writers", fmt.Sprintf("%v stand in transport write/flush calls at the same time: nothing orders their bytes on the wire", inIO))
				w.fail("C01", "concurrent-transport-writers", fmt.Sprintf("%v stand in transport write/flush calls at the same time", inIO))
				if netty.VerifState(w.ch).Closed == 1 && w.winner != "" {
					// Close has taken over (or believes nobody is sending) while a sender is still inside a batch
					w.fail("C06", "drain-while-sender-writes", fmt.Sprintf("after Close began, %v stand in transport write/flush calls at the same time: Close did not wait for the sender's batch", inIO))
				}
			}
		}
		for _, ws := range c.Writers {
			loc := s.Loc(ws.Name)
			// on a queued channel in non-blocking mode the caller never does (and waits for) the transport I/O itself
			if c.QSize > 0 && !c.Until && (loc == "t.writev" || loc == "t.flush" || loc == "t.write") {
				w.fail("C18", "nonblocking-inline-io", fmt.Sprintf("%s (a write call in non-blocking mode) stands at %s: the call itself waits for the transport", ws.Name, loc))
			}
		}
		res.Actions[ev.A]++
		res.Sched = append(res.Sched, []string{kind, proc, ev.A})
		// returns observed after this step
		for _, ws := range c.Writers {
			n := len(w.rets[ws.Name])
			for i := lastRetLen[ws.Name]; i < n; i++ {
				op := w.ops[ws.Name][i]
				op.ret = w.step
				if op.cancelledWaiting && op.res == "ok" {
					w.fail("C18", "cancel-ignored-result", fmt.Sprintf("%s.%d (%s) was accepted although its context ended while it waited for space", op.w, op.idx, op.spec.Kind))
				}
				if isMsgKind(op.spec.Kind) && op.spec.Kind != "M" && op.callerNil && !c.Codec {
					// Channel.Write reports nil either way: the call succeeded iff every low-level write did
					w.parse()
					good := op.accepted == len(op.chunks)
					if c.QSize == 0 {
						// (a failed Flush after a successful Write leaves the bytes on the transport and raises)
						good = op.present() && !op.hadExc && w.flushedAll(op)
					}
					if !good {
						op.res = "mexc"
						w.rets[ws.Name][i] = "mexc"
					}
				}
				if op.res == "terr" && !op.touched {
					// a transport error the writer did not cause itself is the stored close
					// error of a channel closed by a failing sender or reader
					op.res = "closed"
					w.rets[ws.Name][i] = "closed"
				}
			}
			lastRetLen[ws.Name] = n
		}
		for _, cs := range c.Closers {
			if !w.closersDone[cs.Name] && s.Loc(cs.Name) == "done" {
				w.closersDone[cs.Name] = true
				if w.closeRetStep < 0 {
					w.closeRetStep = w.step
				}
				if cs.Name == w.winner {
					w.winnerRet = w.step
				}
			}
		}
		if c.Serve == "full" && w.serveRet == -1 && s.Loc("V") == "done" {
			w.serveRet = w.step
		}
		if c.Scribble {
			poolScribble()
		}
		w.oracleStep(w.faultsUsed == 0)
		if !c.NoTrace {
			ev.Pcs = w.pcs()
			ev.St = w.state()
			ev.Rets = map[string][]string{}
			for k, v := range w.rets {
				ev.Rets[k] = append([]string{}, v...)
			}
			res.Events = append(res.Events, ev)
		}
	}
	res.Steps = w.step
	if res.HarnessErr == "" && w.step >= maxSteps {
		res.HarnessErr = fmt.Sprintf("step budget %d exhausted", maxSteps)
	}
	if res.HarnessErr == "" {
		w.oracleQuiescent()
	}
	for k, v := range s.Locs() {
		res.Final[k] = v
	}
	res.Fails = w.fails
	res.Dumps = s.Dumps
	res.Polls = w.winnerPolls
	// let everything that is still blocked go
	s.SetFree()
	for _, cancel := range w.cancels {
		cancel()
	}
	if !w.tr.IsClosed() {
		// best-effort cleanup; the verdicts are already computed, a failure here must not lose them
		w.tr.G = nil
		done := make(chan struct{})
		go func() {
			defer close(done)
			defer func() { recover() }()
			w.ch.Close(nil)
		}()
		select {
		case <-done:
		case <-time.After(300 * time.Millisecond):
		}
	}
	return res
}

func (w *chanWorld) pcs() map[string]string {
	out := map[string]string{}
	for _, ws := range w.c.Writers {
		out[ws.Name] = "done"
	}
	for _, n := range w.c.Senders {
		out[n] = "none"
	}
	out["R"] = "none"
	out["V"] = "none"
	for k, v := range w.s.Locs() {
		out[k] = v
	}
	return out
}

// closeLivelock: every goroutine standing at a gate is a Close call about to poll again for the sender role, the role
// is taken, and no sender (or Close in its drain) exists that could release it: the Close that took effect never completes.
func (w *chanWorld) closeLivelock(atGate []string) bool {
	if netty.VerifState(w.ch).Running == 0 || len(atGate) == 0 {
		return false
	}
	for _, n := range atGate {
		if w.s.Loc(n) != "c.poll" {
			return false
		}
	}
	// anybody alive who is not at a gate is parked: it cannot release the role either. Pollers that gave up
	// (bounded wait) leave c.poll by themselves, so only the wait-forever mode can be stuck here.
	if !w.c.Until {
		return false
	}
	w.fail("C05", "close-never-completes", fmt.Sprintf("Close (%v) polls for the sender role for ever: the role is held and no sender is left that could release it; transport closed=%v, inactive events=%d", atGate, w.tr.IsClosed(), len(w.inactives)))
	return true
}

// oracleWedged: the transport does not take any bytes (the peer does not read) and nothing else can move.
func (w *chanWorld) oracleWedged(stuck []string) {
	vs := netty.VerifState(w.ch)
	for _, cs := range w.c.Closers {
		loc := w.s.Loc(cs.Name)
		if loc == "done" || loc == "none" || strings.HasPrefix(loc, "t.") {
			continue // (a Close that drains the queue itself waits for the peer like any sender)
		}
		// a synchronous channel's Close needs nothing from the writers; a bounded-wait Close gives up by itself
		if w.c.QSize == 0 || !w.c.Until {
			w.fail("C05", "close-blocked-by-writer", fmt.Sprintf("Close call %s is %s (%s) while %v stand in transport calls that cannot return before the transport is closed: closed flag=%d, transport closed=%v", cs.Name, loc, w.s.ParkedStatus(cs.Name), stuck, vs.Closed, w.tr.IsClosed()))
		}
	}
}

// oracleAtTransportClose is evaluated immediately before the transport is closed.
func (w *chanWorld) oracleAtTransportClose() {
	if w.faultsUsed > 0 || w.c.QSize == 0 {
		return
	}
	if !w.c.Until && w.winnerPolls > 10 {
		return // sender stalled beyond the documented grace period
	}
	w.parse()
	_, fl, _ := w.tr.Lens()
	off := 0
	flushedCk := map[*chunkRun]bool{}
	for _, ck := range w.parsed {
		off += len(ck.data)
		if off <= fl {
			flushedCk[ck] = true
		}
	}
	for _, op := range w.okAtClose {
		allFlushed := true
		for _, ck := range op.chunks {
			if len(ck.data) > 0 && !flushedCk[ck] {
				allFlushed = false
			}
		}
		if !allFlushed {
			state := "still queued"
			if op.present() {
				state = "written but not flushed"
			}
			w.fail("C06", "lost-at-close", fmt.Sprintf("%s.%d was accepted before Close was invoked but is %s when the transport is closed", op.w, op.idx, state))
		}
	}
	// all writers returned before Close began => nobody may be mid-batch now
	allBefore := true
	for _, op := range w.allOps() {
		if op.ret < 0 || op.ret >= w.closeInvoked {
			allBefore = false
		}
	}
	if allBefore {
		for name, loc := range w.s.Locs() {
			if loc == "t.writev" || loc == "s.len" {
				w.fail("C06", "closed-mid-batch", fmt.Sprintf("transport closed while %s is at %s in the middle of a batch", name, loc))
			}
		}
	}
}

// oracleQuiescent is evaluated when no process can move any more.
func (w *chanWorld) oracleQuiescent() {
	w.parse()
	vs := netty.VerifState(w.ch)
	if w.fatalFault != "" {
		// C07: a failing sender write / unswallowed failing read closes the channel with that error
		if vs.Closed == 0 || !w.tr.IsClosed() {
			w.fail("C07", "transport-fault-not-closing", "the channel is still open at quiescence after a failed "+w.fatalFault)
		} else if len(w.inactives) != 1 {
			w.fail("C07", "transport-fault-inactive", fmt.Sprintf("inactive delivered %d times after a failed %s", len(w.inactives), w.fatalFault))
		} else if w.winner != "" && w.closeErr[w.winner] == nil && !isCloser(w.c, w.winner) && !errors.Is(w.inactives[0], mock.ErrInjected) {
			w.fail("C07", "transport-fault-error", fmt.Sprintf("channel closed with %v after a failed %s", w.inactives[0], w.fatalFault))
		}
		for _, n := range []string{"R"} {
			if loc := w.s.Loc(n); loc != "done" && loc != "none" {
				w.fail("C07", "goroutine-stuck", fmt.Sprintf("%s is %s at quiescence after a failed %s", n, loc, w.fatalFault))
			}
		}
	}
	if vs.Closed == 1 && len(w.c.Closers) == 0 && w.faultsUsed == 0 && !w.parentDone && len(w.c.ReadCloses) == 0 {
		// nobody asked for it and nothing failed: exceptions that the application's handler consumed must not close the channel
		w.fail("C07", "closed-without-cause", "the channel is closed at quiescence although no Close was issued, no transport call failed and every exception was consumed by the exception handler")
	}
	n, fl, _ := w.tr.Lens()
	if vs.Closed == 0 && w.faultsUsed == 0 {
		for _, op := range w.allOps() {
			if op.ret >= 0 && op.res == "ok" && !op.present() {
				w.fail("C02", "stranded", fmt.Sprintf("%s.%d was accepted but never handed to the transport (queue length %d at quiescence)", op.w, op.idx, vs.QLen))
			}
		}
		if fl != n {
			w.fail("C02", "unflushed", fmt.Sprintf("%d bytes written but only %d flushed at quiescence", n, fl))
		}
		if vs.QLen != 0 {
			w.fail("C02", "queue-nonempty", fmt.Sprintf("%d packets left in the queue at quiescence", vs.QLen))
		}
		for _, ws := range w.c.Writers {
			if loc := w.s.Loc(ws.Name); loc != "done" {
				// a blocking writer may legitimately wait only while the queue is full
				w.fail("C18", "writer-stuck", fmt.Sprintf("%s is %s at quiescence on an open channel", ws.Name, loc))
			}
		}
	}
	if vs.Closed == 1 {
		for _, ws := range w.c.Writers {
			if loc := w.s.Loc(ws.Name); loc != "done" && w.winnerRet >= 0 {
				w.fail("C18", "writer-stuck-closed", fmt.Sprintf("%s is %s after the channel was closed", ws.Name, loc))
			}
		}
		if w.winnerRet >= 0 {
			if loc := w.s.Loc("R"); loc != "done" && loc != "none" {
				w.fail("C05", "readloop-alive", fmt.Sprintf("read loop is %s after close at quiescence", loc))
			}
		}
	}
	w.oracleStep(w.faultsUsed == 0)
}

func (w *chanWorld) pickRandom(rnd *rand.Rand, atGate []string, prio map[string]int) (string, string) {
	r := w.c.Random
	// env: cancel a mortal context
	if r.CancelPr > 0 && rnd.Float64() < r.CancelPr {
		var names []string
		for n := range w.cancels {
			if !w.ctxErrSeen[n] {
				names = append(names, n)
			}
		}
		sort.Strings(names)
		if len(names) > 0 {
			return "cancel", names[rnd.Intn(len(names))]
		}
	}
	if r.PCancelPr > 0 && !w.parentDone && w.ch.Context().Err() == nil && rnd.Float64() < r.PCancelPr {
		return "pcancel", ""
	}
	var proc string
	switch r.Policy {
	case "pct":
		// random priorities, changed at a few random points
		for _, n := range atGate {
			if _, ok := prio[n]; !ok {
				prio[n] = rnd.Intn(1000) + 10
			}
		}
		if r.Depth > 0 && rnd.Intn(20) < r.Depth {
			prio[atGate[rnd.Intn(len(atGate))]] = rnd.Intn(10)
		}
		best := atGate[0]
		for _, n := range atGate {
			if prio[n] > prio[best] {
				best = n
			}
		}
		proc = best
	case "stall", "drain":
		// stall: a sender standing before a transport call is held back while a closer is still
		// waiting (so that a bounded-wait Close gives up); drain: writers first, then closers,
		// senders last (so that Close finds a backlog)
		var writers, closers, senders []string
		for _, n := range atGate {
			if _, ok := w.ops[n]; ok {
				writers = append(writers, n)
			} else if isCloser(w.c, n) {
				closers = append(closers, n)
			} else {
				senders = append(senders, n)
			}
		}
		pick := func(xs []string) string { return xs[rnd.Intn(len(xs))] }
		switch {
		case len(writers) > 0 && rnd.Intn(10) != 0:
			proc = pick(writers)
		case r.Policy == "stall" && w.winnerPolls > 10 && len(closers) > 0 && len(senders) > 0:
			// the closer has given up waiting: from here on the stalled sender's (failing) transport call
			// may land anywhere in the rest of the close sequence
			proc = pick(append(append([]string{}, closers...), senders...))
		case len(closers) > 0 && (r.Policy == "stall" || rnd.Intn(3) != 0):
			proc = pick(closers)
		case len(senders) > 0:
			proc = pick(senders)
		default:
			proc = pick(atGate)
		}
		if r.Policy == "stall" && w.winnerPolls <= 10 && len(closers) > 0 && w.s.Loc(closers[0]) == "c.poll" {
			// let the closer run out of patience
			return "step", closers[0]
		}
		if r.Policy == "drain" {
			// allow a sender one step now and then so that it takes a first packet and stalls
			if len(senders) > 0 && rnd.Intn(6) == 0 {
				proc = pick(senders)
			}
		}
		return "step", proc
	case "window":
		// bias towards leaving senders/closers inside their windows
		var others []string
		for _, n := range atGate {
			loc := w.s.Loc(n)
			if !(strings.HasPrefix(loc, "s.re") || loc == "c.poll" || loc == "t.flush" || loc == "s.len") {
				others = append(others, n)
			}
		}
		if len(others) > 0 && rnd.Intn(4) != 0 {
			proc = others[rnd.Intn(len(others))]
		} else {
			proc = atGate[rnd.Intn(len(atGate))]
		}
	default:
		proc = atGate[rnd.Intn(len(atGate))]
	}
	// a busy poll of Close costs a real 100ms sleep: mostly let somebody else move
	if w.s.Loc(proc) == "c.poll" && netty.VerifState(w.ch).Running != 0 && len(atGate) > 1 && rnd.Intn(8) != 0 {
		var others []string
		for _, n := range atGate {
			if w.s.Loc(n) != "c.poll" {
				others = append(others, n)
			}
		}
		if len(others) > 0 {
			proc = others[rnd.Intn(len(others))]
		}
	}
	kind := "step"
	if r.FaultProb > 0 && w.faultsUsed < w.c.MaxFault {
		loc := w.s.Loc(proc)
		if (loc == "t.write" || loc == "t.writev" || loc == "t.flush" || loc == "t.read") && !w.tr.IsClosed() && rnd.Float64() < r.FaultProb {
			kind = "fault"
		}
	}
	return kind, proc
}

func isCloser(c *ChanCase, name string) bool {
	for _, cs := range c.Closers {
		if cs.Name == name {
			return true
		}
	}
	return false
}

// poolScribble plays the other users of the shared buffer pool: it obtains a buffer of every size
// class, overwrites it completely and puts it back
func poolScribble() {
	for sz := 1024; sz <= 131072; sz *= 2 {
		for k := 0; k < 3; k++ {
			b := pbytes.Get(sz)
			full := (*b)[:cap(*b)]
			for i := range full {
				full[i] = 0xDD
			}
			e := (*b)[:0]
			pbytes.Put(&e)
		}
	}
}

func contains(xs []string, x string) bool {
	for _, y := range xs {
		if x == y {
			return true
		}
	}
	return false
}

var _ = time.Now
